"""C15 — parsing and serialization round-trip."""
import json, random, glob, os
from collections import Counter
import common, docrun, gen, pool, docs, drv

M = 2 ** 256
THEOREMS = ["Plain.hexVal_hexStr", "Plain.decVal_decStr", "Plain.hexVal_zeros", "Plain.decVal_zeros", "Plain.hexVal_0x",
            "Plain.hexVal_hexStrU", "Plain.spelling_value", "Plain.parse_step", "Plain.parse_print", "Plain.opOf_num_value",
            "Json.toJson_build", "Json.buildAll_toJson", "Json.roundtrip_stable", "Json.buildAll_toJson_off", "Json.buildBlocks_flatten", "Json.blocks_roundtrip"]

PLAIN_OPS = ["ADD", "MUL", "SUB", "MSTORE", "MLOAD", "SSTORE", "SLOAD", "KECCAK256", "JUMP", "JUMPI", "JUMPDEST", "STOP", "RETURN",
             "REVERT", "POP", "DUP1", "DUP16", "SWAP1", "SWAP16", "ISZERO", "CALLVALUE", "CALLDATALOAD", "GAS", "LOG2", "NOT", "EQ"]
KEYWORDS = ["[tag]", "#[$]", "[$]", "data"]


def hexes(rng, c):
    """hexadecimal spellings of c"""
    h = "%x" % c
    return rng.choice([h, h.upper(), "0" + h, "000" + h, "0x" + h, "0x0" + h, "0x" + h.upper(), "0X" + h])


def token_stream(rng, malformed):
    """one plain text: mostly well-formed items; `malformed` plants one defect (missing operand, operand that is not a number)"""
    items = []
    libs = ["libA", "libB", "libC"]
    for _ in range(rng.randrange(1, 9)):
        c = rng.choice([0, 1, 9, 10, 15, 16, 255, 256, 0xdead, 2 ** 64, 2 ** 255, M - 1, rng.randrange(0, M), rng.randrange(0, 300)])
        n = max(1, (c.bit_length() + 7) // 8)
        k = rng.randrange(0, 16)
        if k == 0:
            items.append(rng.choice(PLAIN_OPS))
        elif k == 1:
            items.append("PUSH " + hexes(rng, c))
        elif k == 2:
            items.append("PUSH%d 0x%s" % (rng.choice([n, min(32, n + 1), 32]), rng.choice(["%x", "%X", "0%x", "00%x"]) % c))
        elif k == 3:
            items.append("PUSH%d %s%d" % (rng.choice([n, 32]), rng.choice(["", "0", "000"]), c))
        elif k == 4:
            items.append("PUSH0")
        elif k == 5:
            items.append("PUSH %s %s" % (rng.choice(KEYWORDS), hexes(rng, c)))
        elif k == 6:
            items.append(rng.choice(["PUSHSIZE", "PUSHDEPLOYADDRESS"]))
        elif k == 7:
            items.append("PUSHLIB " + rng.choice(libs))
        elif k == 8:
            items.append("PUSHIMMUTABLE " + hexes(rng, c))
        elif k == 9:
            items.append("ASSIGNIMMUTABLE " + ("%x" % c))
        elif k == 10:
            items.append("tag %d" % rng.randrange(0, 300))
        elif k == 11:
            items.append(rng.choice(["PUSH [tag] %d" % rng.randrange(0, 99), "PUSH data %064x" % rng.randrange(0, M)]))
        else:
            items.append(rng.choice(PLAIN_OPS))
    if malformed:
        bad = rng.choice(["PUSH", "PUSH1", "PUSH [tag]", "PUSH zz", "PUSH1 0xzz", "PUSH1 abc", "PUSH 0x", "PUSH1 0x", "PUSH05 1", "PUSHX",
                          "PUSH2 1f", "tag", "PUSHLIB", "PUSH #[$]", "PUSH 12g", "PUSH1 0X1F", "PUSHIMMUTABLE", "ASSIGNIMMUTABLE", "PUSH1 1.5",
                          "PUSH00 3", "PUSH1 ", "PUSH [tag] zz", "PUSHDATA 5", "PUSHSIZEX", "tagX 4", "PUSH0x 5", "PUSH01 0x5"])
        pos = rng.choice([len(items), rng.randrange(0, len(items) + 1)])
        items.insert(pos, bad)
    sep = rng.choice([" ", " ", "  ", "\n", " \n "])
    return sep.join(items)


def plain_corpus():
    """deterministic part: every spelling family of boundary constants, each keyword, each mnemonic class"""
    out = []
    for c in [0, 1, 9, 10, 15, 16, 17, 255, 256, 4095, 65535, 65536, 2 ** 32, 2 ** 64 - 1, 2 ** 128, 2 ** 255, M - 1]:
        n = max(1, (c.bit_length() + 7) // 8)
        h, d = "%x" % c, "%d" % c
        out += ["PUSH " + h, "PUSH " + h.upper(), "PUSH 0" + h, "PUSH 0000" + h, "PUSH 0x" + h, "PUSH 0x00" + h, "PUSH 0X" + h,
                "PUSH%d 0x%s" % (n, h), "PUSH%d 0x%s" % (n, h.upper()), "PUSH32 0x%064x" % c, "PUSH%d %s" % (n, d), "PUSH%d 0%s" % (n, d),
                "PUSH%d 000%s" % (min(32, n + 1), d), "PUSH32 " + d]
        for kw in KEYWORDS:
            out += ["PUSH %s %s" % (kw, h), "PUSH %s 0x%s" % (kw, h), "PUSH %s 00%s" % (kw, h.upper())]
        out += ["PUSHIMMUTABLE " + h, "ASSIGNIMMUTABLE " + h, "tag " + d, "PUSHLIB " + h]
    out += ["PUSH0", "PUSH0 PUSH0 ADD", "PUSHSIZE", "PUSHDEPLOYADDRESS", "PUSHLIB a PUSHLIB b PUSHLIB a PUSHLIB c PUSHLIB b", "JUMP", "JUMPI",
            "tag 1 JUMPDEST", "PUSH [tag] 1 JUMP", "", " ", "ADD", "PUSH", "PUSH1", "PUSH 1 PUSH", "PUSH [tag]", "PUSH #[$]", "tag"]
    return out


def spellings(c):
    n = max(1, (c.bit_length() + 7) // 8)
    out = [("PUSH %x" % c, c), ("PUSH%d 0x%x" % (n, c), c), ("PUSH%d %d" % (n, c), c), ("PUSH%d 0x%s%x" % (min(32, n + 1), "00", c), c),
           ("PUSH 0%x" % c, c), ("PUSH32 0x%064x" % c, c), ("PUSH %X" % c, c), ("PUSH%d 0%d" % (n, c), c), ("PUSH%d 000%d" % (min(32, n + 2), c), c)]
    return out


def run(tier):
    sd = common.seed()
    rng = random.Random(sd * 97 + 23)
    violations = []
    c = Counter()
    # (a) JSON documents
    dl = docrun.synthesized(sd + 7, 12 if tier == "quick" else 150, ncontracts=2, nblocks=4) + docs.handcrafted()
    for f in sorted(glob.glob(os.path.join(common.REPO, "examples", "jsons-solc", "*.json_solc")) +
                    glob.glob(os.path.join(common.REPO, "tests", "files", "solc_v_0_8_15", "*.json_solc"))):
        if tier != "quick" or os.path.getsize(f) < 400000:
            dl.append((os.path.basename(f), open(f).read()))
    tasks = []
    for name, d in dl:
        text = d if isinstance(d, str) else json.dumps(d)
        for p0 in (True, False):
            tasks.append({"kind": "json_roundtrip", "text": text, "push0": p0, "name": name, "timeout": 200})
            if len(text) < 400000:
                tasks.append({"kind": "json_items", "text": text, "push0": p0, "name": name, "timeout": 200})
    # (b)/(c) plain text
    blocks = gen.blocks(sd * 19 + 8, 300 if tier == "quick" else 5000, split_prob=0.2, terminal_prob=0.2)
    consts = gen.BOUNDARY + [rng.randrange(0, M) for _ in range(40 if tier == "quick" else 2000)] + list(range(0, 40)) + [255, 256, 65535, 65536]
    sp = [s for v in consts for s in spellings(v)]
    for p0 in (True, False):
        tasks.append({"kind": "plain_roundtrip", "texts": blocks, "push0": p0, "timeout": 200})
        tasks.append({"kind": "plain_roundtrip", "texts": [t for t, _ in sp], "push0": p0, "spell": True, "timeout": 200})
    # (d) the plain-text reader against its Lean model (Models/Plain.lean), text by text
    po = common.proof_obligations("GasolVerif.Proofs.PlainSound,GasolVerif.Proofs.JsonItemSound", THEOREMS)
    violations += [{"kind": "broken-proof-obligation", "what": b, "no_failing_input": True, "input": b} for b in po["broken"]]
    texts = plain_corpus() + [token_stream(rng, i % 4 == 0) for i in range(1500 if tier == "quick" else 40000)]
    CH = 500
    ops_tasks = [{"kind": "plain_ops", "texts": texts[i:i + CH], "timeout": 200} for i in range(0, len(texts), CH)]
    tasks += ops_tasks
    res = pool.run_tasks(tasks, timeout=200)
    samples = []
    real_rows = []
    for t, r, st in res:
        if t["kind"] == "plain_ops":
            if st != "ok" or r is None or "harness_error" in (r or {}):
                raise common.MachineryError("worker failed on plain_ops: %s %s" % (st, (r or {}).get("harness_error")))
            real_rows += r["rows"]
    res = [x for x in res if x[0]["kind"] != "plain_ops"]
    model_rows = drv.batch(["PLAINPARSE\t" + tx.replace("\n", "\x01") for tx in texts])
    mism = []
    for tx, a, b in zip(texts, real_rows, model_rows):
        c["reader-texts"] += 1
        c["reader-" + ("error" if a == "error" else "ok")] += 1
        if a != b:
            mism.append((tx, a, b))
    print_items = []
    # (a') the item reader / writer against Models/JsonItem.lean, section by section (theorems buildAll_toJson, roundtrip_stable)
    jreqs, jmeta = [], []
    for t, r, st in res:
        if t["kind"] != "json_items":
            continue
        if st != "ok" or r is None or "harness_error" in (r or {}):
            raise common.MachineryError("worker failed on json_items: %s %s" % (st, (r or {}).get("harness_error")))
        for sec in r["sections"]:
            if "skipped" in sec:
                c["item-sections-outside-the-model"] += 1
                continue
            jreqs.append("JSONITEMS\t%s\t%s" % ("1" if t["push0"] else "0", sec["items"]))
            jmeta.append((t, sec, "real"))
            if "real_blocks" in sec:
                jreqs.append("JSONBLOCKS\t%s\t%s" % ("1" if t["push0"] else "0", sec["items"]))
                jmeta.append((t, sec, "real_blocks"))
    for o, (t, sec, which) in zip(drv.batch(jreqs), jmeta):
        if which == "real":
            c["item-sections"] += 1
            c["items-read-and-written"] += sec["n"]
        else:
            c["sections-cut-into-blocks"] += 1
            c["blocks-compared"] += o.count("\x1d") + 1 if o and o != "raise" else 0
        if o.startswith("error"):
            raise common.MachineryError("driver JSONITEMS: " + o[:200])
        if o != sec[which]:
            a, b = o.replace("\x1d", "\x1e|\x1e").split("\x1e"), sec[which].replace("\x1d", "\x1e|\x1e").split("\x1e")
            k = next((i for i in range(min(len(a), len(b))) if a[i] != b[i]), min(len(a), len(b)))
            violations.append({"kind": "item-reader-differs-from-model", "input": "%s %s" % (t["name"], "/".join(sec["path"])), "no_failing_input": True,
                               "what": "correspondence Models/JsonItem.lean <-> build_asm_bytecode/to_json broken on %s section %s (push0=%s) near element %d: "
                                       "model %r, code %r %s" % (t["name"], "/".join(sec["path"]), t["push0"], k, (a[k] if k < len(a) else "")[:120],
                                                                 (b[k] if k < len(b) else "")[:120], sec.get("exception", ""))})
    res = [x for x in res if x[0]["kind"] != "json_items"]
    for t, r, st in res:
        if st != "ok" or r is None or "harness_error" in (r or {}):
            raise common.MachineryError("worker failed on %s: %s %s" % (t["kind"], st, (r or {}).get("harness_error")))
        if t["kind"] == "json_roundtrip":
            c["documents"] += 1
            if "exception" in r:
                violations.append({"kind": "parser-raises", "input": t["name"], "what": "parse_asm raised %s on %s" % (r["exception"], t["name"])})
            elif not r["same"]:
                violations.append({"kind": "json-round-trip-differs", "input": t["name"],
                                   "what": "to_json(parse(%s)) differs (push0=%s) at %s" % (t["name"], t["push0"], r["diff"])})
            elif len(samples) < 2:
                samples.append({"document": t["name"], "push0": t["push0"], "round_trip": "identical"})
            continue
        for i, row in enumerate(r["rows"]):
            c["plain-texts"] += 1
            if "exception" in row:
                violations.append({"kind": "plain-parser-raises", "input": row["text"], "what": "parsing %r raised %s" % (row["text"], row["exception"])})
                continue
            def nrm(blocks_):
                # constants are compared by numeric value, everything else textually
                def one(d, v):
                    if d == "PUSH0" or (d == "PUSH" and v is not None and int(v, 16) == 0):
                        return ("PUSH", 0)           # a zero push, however it is spelled
                    return (d, int(v, 16) if d == "PUSH" and v is not None else v)
                return [[one(d, v) for d, v in b] for b in blocks_]
            if not t.get("spell"):
                print_items += [(t["push0"], [(d, v) for d, v in b]) for b in row["items"] if b]
            row["again"], row["again_bytes"], row["items"] = nrm(row["again"]), nrm(row["again_bytes"]), nrm(row["items"])
            if row["again"] != row["items"]:
                violations.append({"kind": "plain-round-trip-differs", "input": row["text"],
                                   "what": "parse(to_plain(B)) != B for %r (push0=%s): %r" % (row["text"], t["push0"], row["plain"])})
            if row["again_bytes"] != row["items"]:
                violations.append({"kind": "plain-round-trip-differs", "input": row["text"],
                                   "what": "parse(to_plain_with_byte_number(B)) != B for %r (push0=%s): %r" % (row["text"], t["push0"], row["plain_bytes"])})
            if t.get("spell"):
                want = sp[i][1]
                got = row["items"][0][0] if row["items"] and row["items"][0] else None
                val = None
                if got:
                    val = got[1] if got[0] == "PUSH" and got[1] is not None else None
                c["spellings"] += 1
                if val != want:
                    violations.append({"kind": "constant-spelling-changes-value", "input": row["text"],
                                       "what": "%r parses to %r, expected the constant %#x" % (row["text"], got, want)})
    # (e) the printer against its Lean model, and the round-trip theorem's premise (`covered`) on real blocks
    def enc(items):
        return "|".join("%s~%s" % (d, "-" if v is None else "s:%s" % v) for d, v in items)
    ptasks = [{"kind": "plain_print", "push0": p0, "blocks": [it for q, it in print_items if q == p0], "timeout": 200} for p0 in (True, False)]
    pres = pool.run_tasks(ptasks, timeout=200)
    for t, r, st in pres:
        if st != "ok" or r is None or "harness_error" in (r or {}):
            raise common.MachineryError("worker failed on plain_print: %s %s" % (st, (r or {}).get("harness_error")))
        its = t["blocks"]
        outs = drv.batch(["PLAINPRINT\t%s\t%s" % ("1" if t["push0"] else "0", enc(it)) for it in its])
        for it, real, o in zip(its, r["rows"], outs):
            c["printed-blocks"] += 1
            text, cv, rt = (o.split("\t") + ["", ""])[:3]
            c["print-" + rt] += 1
            a, b_ = cv.split("/") if "/" in cv else ("0", "0")
            c["items-covered-by-parse_print"] += int(a); c["items-printed"] += int(b_)
            if real != text:
                mism.append(("to_plain(push0=%s) of %s" % (t["push0"], it), real, text))
            if rt == "roundtrip-BROKEN":
                violations.append({"kind": "broken-proof-obligation", "no_failing_input": True, "input": enc(it),
                                   "what": "Lean model: parse(print(B)) differs from B.map opOf although B is covered (contradicts Plain.parse_print): %s" % enc(it)})
    flagged = {v.get("input") for v in violations}

    def value_differs(a, b):
        """the two op lists have the same shape and some numeric PUSH value differs: a constant is read as another number"""
        xs, ys = a.split("|"), b.split("|")
        if a in ("error",) or b in ("error",) or len(xs) != len(ys):
            return False
        for x, y in zip(xs, ys):
            (nx, _, vx), (ny, _, vy) = x.partition("~"), y.partition("~")
            if nx != ny:
                return False
            if vx != vy:
                try:
                    if vx.startswith("s:") and vy.startswith("s:") and int(vx[2:], 16) != int(vy[2:], 16):
                        return True
                except ValueError:
                    return False
        return False
    for tx, a, b in mism[:50]:
        violations.append({"kind": "plain-reader-differs-from-model", "input": tx, "no_failing_input": not (tx in flagged or value_differs(a, b)),
                           "what": "correspondence Models/Plain.lean <-> parser_asm/asm_bytecode broken on %r: real code gives %r, model gives %r "
                                   "(theorems spelling_value / parse_print are about the model)" % (tx, a, b)})
    c["reader-mismatches"] = len(mism)
    cov = {"evaluations": c["documents"] + c["plain-texts"], "distinct_nontrivial": c["documents"] + c["plain-texts"],
           "rule": "all shipped and test documents (size-limited in quick), synthesized documents with nested data, contracts without asm, every "
                   "pseudo-push kind and optional fields, each under PUSH0 on/off: to_json(parse(D)) = D modulo the PUSH0 spelling; generated "
                   "blocks: parse(to_plain(B)) = B and parse(to_plain_with_byte_number(B)) = B; seven spellings of each constant",
           "samples": samples or [{"n": 0}], "counters": dict(c), "obligations": po["obligations"], "discharged": po["discharged"],
           "axioms": po["axioms"], "programs": c["reader-texts"] + c["printed-blocks"], "disagreements_checked": c["reader-mismatches"],
           "checker_cmd": "cd lean && lake build GasolVerif gvdrv; #print axioms " + ", ".join(THEOREMS),
           "trusted_base": ["Lean 4.33 kernel", "axioms: propext, Classical.choice, Quot.sound",
                            "Models/Plain.lean as the meaning of plain_instructions_to_asm_representation and AsmBytecode.to_plain (validated text by text)",
                            "tokenisation at blanks/newlines, Python int() on signs/underscores/non-ASCII digits (outside the model, not generated)",
                            "the JSON reader/writer (parse_asm, to_json) has no model: clause one of the property is differential only"]}
    cov["rule"] += ("; the plain-text reader and printer are compared with their Lean model on a deterministic corpus of spellings/keywords/mnemonic "
                    "classes plus generated token streams (one in four with a planted defect), and on every item of the generated blocks")
    return {"level": "proof", "coverage": cov, "violations": violations,
            "assumptions": ["clauses two and three (plain text) are Lean theorems about Models/Plain.lean tied to the code by exact correspondence; "
                            "clause one (JSON round trip) is a differential check without a theorem",
                            "PUSHLIB items and JUMP items carrying a value are outside Plain.parse_print (counted under items-printed minus items-covered)"]}


def replay(v):
    print(v.get("what"))
    return 1
