/-
  (V) Term normaliser used by the equivalence validator.  Definitions only (no Mathlib);
  soundness (`evalW (normW t) = evalW t`, …) is proved in `Proofs/NormSound.lean`.
  The normaliser knows the algebraic identities the GASOL front end uses (the sound ones),
  EVM-correct constant folding, load/store forwarding, dead and redundant stores and the
  commutation of provably disjoint memory/storage writes.
-/
import GasolVerif.Term
namespace GasolVerif

deriving instance Ord for UnOp
deriving instance Ord for BinOp
deriving instance Ord for TerOp
deriving instance Ord for Tm

namespace Norm

def maxW : Word := BitVec.allOnes 256

def tmLe (a b : Tm) : Bool := compare a b != .gt

def isAddrEnv (t : Tm) : Bool :=
  match t with
  | .env0 n => n == "ADDRESS" || n == "CALLER" || n == "ORIGIN" || n == "COINBASE"
  | _ => false

def isBoolOp : BinOp → Bool
  | .lt | .gt | .slt | .sgt | .eq => true
  | _ => false

/-- terms whose value is 0 or 1 -/
def isBool : Tm → Bool
  | .bin op _ _ => isBoolOp op
  | .un .iszero _ => true
  | _ => false

/-- `ISZERO` with the front end's rules -/
def mkIszero (a : Tm) : Tm :=
  match a with
  | .const w => .const (Word.iszero w)
  | .un .iszero (.un .iszero x) => .un .iszero x
  | .un .iszero (.bin op x y) => if isBoolOp op then .bin op x y else .un .iszero a
  | .bin .gt x (.const w) => if w = 0#256 then .un .iszero x else .un .iszero a
  | .bin .lt (.const w) x => if w = 0#256 then .un .iszero x else .un .iszero a
  | .bin .xor x y => .bin .eq x y
  | .bin .sub x y => if tmLe x y then .bin .eq x y else .bin .eq y x
  | _ => .un .iszero a

def mkNot (a : Tm) : Tm :=
  match a with
  | .const w => .const (Word.not w)
  | .un .not x => x
  | _ => .un .not a

def mkUn (op : UnOp) (a : Tm) : Tm :=
  match op with
  | .iszero => mkIszero a
  | .not => mkNot a

/-- rewrites of a commutative operator whose arguments are already ordered (`a ≤ b`, constants
    first): `…Const` looks at a constant first argument, `…Struct` at the shape of the arguments -/
def andConst (a b : Tm) : Option Tm :=
  match a with
  | .const w =>
    if w = 0#256 then some (.const 0#256)
    else if w = maxW then some b
    else if w = addrMask && isAddrEnv b then some b
    else
      match b with
      | .bin .and (.const w') y => some (.bin .and (.const (w &&& w')) y)
      | _ => none
  | _ => none

def andStruct (a b : Tm) : Option Tm :=
  if a = b then some a else
  match a, b with
  | x, .un .not y => if x = y then some (.const 0#256) else none
  | .un .not y, x => if x = y then some (.const 0#256) else none
  | x, .bin .and p q => if x = p || x = q then some b else none
  | .bin .and p q, x => if x = p || x = q then some a else none
  | x, .bin .or p q => if x = p || x = q then some x else none
  | .bin .or p q, x => if x = p || x = q then some x else none
  | _, _ => none

def andShlRule (a b : Tm) : Option Tm :=
  match a, b with
  | .bin .shl s y, .bin .shl s' z =>
    if s = s' then some (.bin .shl s (if tmLe y z then .bin .and y z else .bin .and z y)) else none
  -- AND(w' << k, z << k) = (w' & z) << k
  | .const w, .bin .shl (.const k) z =>
    if k.toNat < 256 && (w >>> k.toNat) <<< k.toNat == w
    then some (.bin .shl (.const k) (.bin .and (.const (w >>> k.toNat)) z)) else none
  | _, _ => none

def orConst (a b : Tm) : Option Tm :=
  match a with
  | .const w =>
    if w = 0#256 then some b
    else if w = maxW then some (.const maxW)
    else
      match b with
      | .bin .or (.const w') y => some (.bin .or (.const (w ||| w')) y)
      | _ => none
  | _ => none

def orStruct (a b : Tm) : Option Tm :=
  if a = b then some a else
  match a, b with
  | x, .un .not y => if x = y then some (.const maxW) else none
  | .un .not y, x => if x = y then some (.const maxW) else none
  | x, .bin .or p q => if x = p || x = q then some b else none
  | .bin .or p q, x => if x = p || x = q then some a else none
  | x, .bin .and p q => if x = p || x = q then some x else none
  | .bin .and p q, x => if x = p || x = q then some x else none
  | _, _ => none

def xorConst (a b : Tm) : Option Tm :=
  match a with
  | .const w => if w = 0#256 then some b else none
  | _ => none

def xorStruct (a b : Tm) : Option Tm :=
  if a = b then some (.const 0#256) else
  match a, b with
  | x, .bin .xor p q => if x = p then some q else if x = q then some p else none
  | .bin .xor p q, x => if x = p then some q else if x = q then some p else none
  | _, _ => none

def addRule (a b : Tm) : Option Tm :=
  match a, b with
  | .const w, x =>
    if w = 0#256 then some x else
    match x with
    | .bin .add (.const w') y => some (.bin .add (.const (w + w')) y)
    | _ => none
  | _, _ => none

def mulStruct (a b : Tm) : Option Tm :=
  match a, b with
  -- MUL(x, SHL(y, 1)) = SHL(y, x)
  | x, .bin .shl y (.const w) => if w = 1#256 then some (.bin .shl y x) else none
  | .bin .shl y (.const w), x => if w = 1#256 then some (.bin .shl y x) else none
  | _, _ => none

/-- `some k` when `w = 2^k` with `0 < k < 256` -/
def pow2? (w : Word) : Option Nat :=
  let k := w.toNat.log2
  if 0 < k && k < 256 && w == 1#256 <<< k then some k else none

/-- a multiplication by a power of two is written as a shift (canonical form) -/
def mulConst (a b : Tm) : Option Tm :=
  match a with
  | .const w =>
    if w = 0#256 then some (.const 0#256)
    else if w = 1#256 then some b
    else match pow2? w with
      | some k => some (.bin .shl (.const (BitVec.ofNat 256 k)) b)
      | none => none
  | _ => none

def eqRule (a b : Tm) : Option Tm :=
  if a = b then some (.const 1#256) else
  match a, b with
  | .const w, x =>
    if w = 0#256 then some (mkIszero x)
    else if w = 1#256 && isBool x then some x
    else
      match x with
      -- EQ(c, XOR(c', y)) = EQ(c ^ c', y)
      | .bin .xor (.const w') y => if w = w' then some (mkIszero y) else some (.bin .eq (.const (w ^^^ w')) y)
      | _ => none
  | x, .bin .xor p q => if x = p then some (mkIszero q) else if x = q then some (mkIszero p) else none
  | .bin .xor p q, x => if x = p then some (mkIszero q) else if x = q then some (mkIszero p) else none
  | _, _ => none

/-- non-commutative operators: `a` is the first (top of stack) operand -/
def subRule (a b : Tm) : Option Tm :=
  if a = b then some (.const 0#256) else
  match b with
  | .const w => if w = 0#256 then some a else none
  | _ => none

def divRule (a b : Tm) : Option Tm :=
  match a, b with
  | _, .const w =>
    if w = 0#256 then some (.const 0#256) else if w = 1#256 then some a else
    match pow2? w with
    | some k => some (.bin .shr (.const (BitVec.ofNat 256 k)) a)
    | none => none
  -- DIV(x, SHL(y, 1)) = SHR(y, x)
  | x, .bin .shl y (.const w) =>
    if w = 1#256 then some (.bin .shr y x)
    else match x with
      | .const v => if v = 0#256 then some (.const 0#256) else none
      | _ => none
  | .const w, _ => if w = 0#256 then some (.const 0#256) else none
  | _, _ => none

def sdivRule (a b : Tm) : Option Tm :=
  match a, b with
  | _, .const w =>
    if w = 0#256 then some (.const 0#256) else if w = 1#256 then some a else none
  | .const w, _ => if w = 0#256 then some (.const 0#256) else none
  | _, _ => none

def modRule (a b : Tm) : Option Tm :=
  if a = b then some (.const 0#256) else
  match b with
  | .const w => if w = 0#256 || w = 1#256 then some (.const 0#256) else none
  | _ => none

def expRule (a b : Tm) : Option Tm :=
  match a, b with
  | _, .const w =>
    if w = 0#256 then some (.const 1#256) else if w = 1#256 then some a else
    match a with
    | .const v => if v = 1#256 then some (.const 1#256) else none
    | _ => none
  | .const w, x =>
    if w = 1#256 then some (.const 1#256)
    else if w = 0#256 then some (mkIszero x)
    else if w = 2#256 then some (.bin .shl x (.const 1#256))
    else none
  | _, _ => none

def gtRule (a b : Tm) : Option Tm :=
  if a = b then some (.const 0#256) else
  match a, b with
  | .const w, x =>
    if w = 0#256 then some (.const 0#256)
    else if w = 1#256 then some (mkIszero x) else none
  -- GT(x, 0) = ISZERO(ISZERO(x))
  | x, .const w => if w = 0#256 then some (.un .iszero (.un .iszero x)) else none
  | _, _ => none

def ltRule (a b : Tm) : Option Tm :=
  if a = b then some (.const 0#256) else
  match a, b with
  | x, .const w =>
    if w = 0#256 then some (.const 0#256)
    else if w = 1#256 then some (mkIszero x) else none
  | .const w, x => if w = 0#256 then some (.un .iszero (.un .iszero x)) else none
  | _, _ => none

def selfZeroRule (a b : Tm) : Option Tm := if a = b then some (.const 0#256) else none

/-- shared by SHL and SHR -/
def shiftRule (a b : Tm) : Option Tm :=
  match a, b with
  | .const w, x => if w = 0#256 then some x else if 256 ≤ w.toNat then some (.const 0#256) else none
  | _, .const w => if w = 0#256 then some (.const 0#256) else none
  | _, _ => none

def sarRule (a b : Tm) : Option Tm :=
  match a with
  | .const w => if w = 0#256 then some b else none
  | _ => none

def ncRule (op : BinOp) (a b : Tm) : Option Tm :=
  match op with
  | .sub => subRule a b
  | .div => divRule a b
  | .sdiv => sdivRule a b
  | .mod => modRule a b
  | .exp => expRule a b
  | .gt => gtRule a b
  | .lt => ltRule a b
  | .sgt => selfZeroRule a b
  | .slt => selfZeroRule a b
  | .shl => shiftRule a b
  | .shr => shiftRule a b
  | .sar => sarRule a b
  | _ => none

def commRule (op : BinOp) (a b : Tm) : Option Tm :=
  match op with
  | .and => ((andStruct a b).orElse fun _ => andConst a b).orElse fun _ => andShlRule a b
  | .or => (orStruct a b).orElse fun _ => orConst a b
  | .xor => (xorStruct a b).orElse fun _ => xorConst a b
  | .add => addRule a b
  | .mul => (mulStruct a b).orElse fun _ => mulConst a b
  | .eq => eqRule a b
  | _ => none

def mkBin (op : BinOp) (a b : Tm) : Tm :=
  match a, b with
  | .const x, .const y => .const (op.sem x y)
  | _, _ =>
    if op.comm then
      let (a, b) := if tmLe a b then (a, b) else (b, a)
      (commRule op a b).getD (.bin op a b)
    else (ncRule op a b).getD (.bin op a b)

def mkTer (op : TerOp) (a b c : Tm) : Tm :=
  match a, b, c with
  | .const x, .const y, .const z => .const (op.sem x y z)
  | _, _, _ => .ter op a b c

def mkEnv1 (n : String) (a : Tm) : Tm :=
  match a with
  | .env0 m => if n == "BALANCE" && m == "ADDRESS" then .env0 "SELFBALANCE" else .env1 n a
  | _ => .env1 n a

/-- `t = base + off` -/
def splitAddr : Tm → Tm × Word
  | .const c => (.const 0#256, c)
  | .bin .add (.const c) x => (x, c)
  | t => (t, 0#256)

/-- the `sa` bytes at `a` and the `sb` bytes at `b` cannot intersect, whatever the state -/
def disjoint (a : Tm) (sa : Nat) (b : Tm) (sb : Nat) : Bool :=
  -- two constant addresses: compared as numbers (memory offsets do not wrap around)
  (match a, b with
   | .const ca, .const cb => decide (ca.toNat + sa ≤ cb.toNat ∨ cb.toNat + sb ≤ ca.toNat)
   | _, _ => false) ||
  let (ba, oa) := splitAddr a
  let (bb, ob) := splitAddr b
  ba == bb &&
    (let d := (ob - oa).toNat
     decide (sa ≤ d ∧ d + sb ≤ 2 ^ 256))

/-- size of a hashed range when it is a constant -/
def constLen? : Tm → Option Nat
  | .const c => some c.toNat
  | _ => none

/-- the memory term as seen by a read of `sz` bytes at `a`: stores that cannot touch the range are skipped -/
def memFor (a : Tm) (sz : Nat) : Tm → Tm
  | .mstore m b v => if disjoint a sz b 32 then memFor a sz m else .mstore (memFor a sz m) b v
  | .mstore8 m b v => if disjoint a sz b 1 then memFor a sz m else .mstore8 (memFor a sz m) b v
  | m => m

def mkMload (m a : Tm) : Tm :=
  match memFor a 32 m with
  | .mstore m' b v => if a = b then v else .mload (.mstore m' b v) a
  | m' => .mload m' a

def mkKeccak (m off len : Tm) : Tm :=
  match constLen? len with
  | some n => .keccak (memFor off n m) off len
  | none => .keccak m off len

/-- remove the word stores at (syntactically) `a` from a store chain: they are dead once `a` is
    written again, whatever lies in between -/
def killMstore (a : Tm) : Tm → Tm
  | .mstore m b w => if a = b then killMstore a m else .mstore (killMstore a m) b w
  | .mstore8 m b w => .mstore8 (killMstore a m) b w
  | m => m

def killSstore (k : Tm) : Tm → Tm
  | .sstore s j w => if k = j then killSstore k s else .sstore (killSstore k s) j w
  | s => s

/-- insert a word store into a normalised memory term -/
def insMstore (a v : Tm) : Tm → Tm
  | .mstore m b w =>
    if a = b then .mstore m a v                        -- the earlier store is dead
    else if disjoint a 32 b 32 && tmLe a b then .mstore (insMstore a v m) b w   -- canonical order
    else .mstore (.mstore m b w) a v
  | .mstore8 m b w =>
    if disjoint a 32 b 1 && tmLe a b then .mstore8 (insMstore a v m) b w
    else .mstore (.mstore8 m b w) a v
  | m => .mstore m a v

def insMstore8 (a v : Tm) : Tm → Tm
  | .mstore8 m b w =>
    if a = b then .mstore8 m a v
    else if disjoint a 1 b 1 && tmLe a b then .mstore8 (insMstore8 a v m) b w
    else .mstore8 (.mstore8 m b w) a v
  | .mstore m b w =>
    if disjoint a 1 b 32 && tmLe a b then .mstore (insMstore8 a v m) b w
    else .mstore8 (.mstore m b w) a v
  | m => .mstore8 m a v

/-- storing back what was loaded from the same memory at the same address changes nothing -/
def mkMstore (m a v : Tm) : Tm :=
  if v = mkMload m a then m else insMstore a v (killMstore a m)

def mkMstore8 (m a v : Tm) : Tm := insMstore8 a v m

/-- two storage keys that differ in every state: distinct constants, or `base + c₁`, `base + c₂` -/
def keysDiffer (a b : Tm) : Bool :=
  let (ba, oa) := splitAddr a
  let (bb, ob) := splitAddr b
  ba == bb && oa != ob

def stoFor (k : Tm) : Tm → Tm
  | .sstore s j v => if keysDiffer k j then stoFor k s else .sstore (stoFor k s) j v
  | s => s

def mkSload (s k : Tm) : Tm :=
  match stoFor k s with
  | .sstore s' j v => if k = j then v else .sload (.sstore s' j v) k
  | s' => .sload s' k

def insSstore (k v : Tm) : Tm → Tm
  | .sstore s j w =>
    if k = j then .sstore s k v
    else if keysDiffer k j && tmLe k j then .sstore (insSstore k v s) j w
    else .sstore (.sstore s j w) k v
  | s => .sstore s k v

def mkSstore (s k v : Tm) : Tm :=
  if v = mkSload s k then s else insSstore k v (killSstore k s)

end Norm

open Norm in
mutual
/-- one bottom-up normalisation pass over a word-valued term -/
def normW : Tm → Tm
  | .env1 n a => mkEnv1 n (normW a)
  | .un op a => mkUn op (normW a)
  | .bin op a b => mkBin op (normW a) (normW b)
  | .ter op a b c => mkTer op (normW a) (normW b) (normW c)
  | .mload m a => mkMload (normM m) (normW a)
  | .sload s k => mkSload (normS s) (normW k)
  | .keccak m off len => mkKeccak (normM m) (normW off) (normW len)
  | t => t
/-- … over a memory-valued term -/
def normM : Tm → Tm
  | .mstore m a v => mkMstore (normM m) (normW a) (normW v)
  | .mstore8 m a v => mkMstore8 (normM m) (normW a) (normW v)
  | t => t
/-- … over a storage-valued term -/
def normS : Tm → Tm
  | .sstore s k v => mkSstore (normS s) (normW k) (normW v)
  | t => t
end

/-- a normaliser: one function per sort -/
structure Normaliser where
  w : Tm → Tm
  m : Tm → Tm
  s : Tm → Tm

/-- three passes: a rewrite can expose a redex one level up -/
def norm3 : Normaliser where
  w t := normW (normW (normW t))
  m t := normM (normM (normM t))
  s t := normS (normS (normS t))

/-- the identity normaliser (purely syntactic comparison) -/
def normId : Normaliser := ⟨id, id, id⟩

end GasolVerif
