/-
  C02: schedule independence.  If non-conflicting actions commute, two duplicate-free schedules of
  the same actions that order every conflicting pair the same way compute the same state.
  (Instantiation: actions = memory/storage operations of a specification, conflict = data flow or
  possibly overlapping accesses one of which writes; `Spec.firstConflict = none` says every such pair
  is ordered by the declared dependences, hence identically in all admissible schedules.)
-/
import GasolVerif.Proofs.NormSound
namespace GasolVerif

section
variable {α σ : Type}
def runActs (act : α → σ → σ) : List α → σ → σ
  | [], s => s
  | a :: l, s => runActs act l (act a s)

theorem run_move_front (act : α → σ → σ) (conf : α → α → Prop)
    (hcomm : ∀ a b, ¬ conf a b → ∀ s, act a (act b s) = act b (act a s))
    (a : α) (pre post : List α) (h : ∀ b ∈ pre, ¬ conf a b) (s : σ) :
    runActs act (pre ++ a :: post) s = runActs act (a :: pre ++ post) s := by
  induction pre generalizing s with
  | nil => rfl
  | cons b pre ih =>
    have hb : ¬ conf a b := h b (by simp)
    have ih' := ih (fun c hc => h c (by simp [hc])) (act b s)
    simp only [List.cons_append, runActs] at ih' ⊢
    rw [ih', hcomm a b hb]
end

section
variable {α σ : Type} [DecidableEq α]

theorem schedule_indep (act : α → σ → σ) (conf : α → α → Prop)
    (hcomm : ∀ a b, ¬ conf a b → ∀ s, act a (act b s) = act b (act a s)) :
    ∀ (L₁ L₂ : List α), L₁.Nodup → L₁.Perm L₂ →
      (∀ a b, a ∈ L₁ → b ∈ L₁ → conf a b → L₁.idxOf a < L₁.idxOf b → L₂.idxOf a < L₂.idxOf b) →
      ∀ s, runActs act L₁ s = runActs act L₂ s := by
  intro L₁
  induction L₁ with
  | nil => intro L₂ _ hp _ s; have := hp.nil_eq; subst this; rfl
  | cons a L₁ ih =>
    intro L₂ hnd hp hord s
    have ha : a ∈ L₂ := hp.subset (by simp)
    obtain ⟨pre, post, rfl⟩ := List.append_of_mem ha
    have hnd₂ : (pre ++ a :: post).Nodup := hp.nodup_iff.mp hnd
    have ha_pre : a ∉ pre := by
      intro h
      have := List.nodup_append.mp hnd₂
      exact this.2.2 a h a (by simp) rfl
    have ha_L₁ : a ∉ L₁ := (List.nodup_cons.mp hnd).1
    have hpre : ∀ b ∈ pre, ¬ conf a b := by
      intro b hb hc
      have hbL : b ∈ a :: L₁ := hp.symm.subset (by simp [hb])
      have hba : b ≠ a := fun h => ha_pre (h ▸ hb)
      have h1 : (a :: L₁).idxOf a < (a :: L₁).idxOf b := by
        have : (a == b) = false := by simp [hba.symm]
        simp [List.idxOf_cons, this]
      have h2 := hord a b (by simp) hbL hc h1
      have hlt := List.idxOf_lt_length_of_mem hb
      simp [List.idxOf_append, hb, ha_pre] at h2
      omega
    rw [run_move_front act conf hcomm a pre post hpre s]
    simp only [List.cons_append, runActs]
    have hp' : L₁.Perm (pre ++ post) := by
      have h2 : (pre ++ a :: post).Perm (a :: (pre ++ post)) := List.perm_middle
      exact (hp.trans h2).cons_inv
    apply ih (pre ++ post) (List.nodup_cons.mp hnd).2 hp'
    intro x y hx hy hc hlt
    have hxa : x ≠ a := fun h => ha_L₁ (h ▸ hx)
    have hya : y ≠ a := fun h => ha_L₁ (h ▸ hy)
    have e1 : (a == x) = false := by simp [hxa.symm]
    have e2 : (a == y) = false := by simp [hya.symm]
    have h1 : (a :: L₁).idxOf x < (a :: L₁).idxOf y := by
      simp only [List.idxOf_cons, e1, e2, cond_false]; omega
    have h2 := hord x y (by simp [hx]) (by simp [hy]) hc h1
    have hxm : x ∈ pre ++ post := hp'.subset hx
    have hym : y ∈ pre ++ post := hp'.subset hy
    simp only [List.idxOf_append, List.idxOf_cons] at h2 ⊢
    simp only [e1, e2, cond_false] at h2
    have lx : x ∈ pre → pre.idxOf x < pre.length := List.idxOf_lt_length_of_mem
    have ly : y ∈ pre → pre.idxOf y < pre.length := List.idxOf_lt_length_of_mem
    by_cases hxp : x ∈ pre <;> by_cases hyp : y ∈ pre <;>
      simp only [hxp, hyp, if_true, if_false] at h2 ⊢ <;>
      first | (have := lx hxp; omega) | (have := ly hyp; omega) | omega
end

end GasolVerif
