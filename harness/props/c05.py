"""C05 — the built-in equivalence checker never accepts distinguishable blocks."""
import random, re
from collections import Counter
import common, e2e, gen, pool, drv

THEOREMS = ["equiv_norm3_sound", "symExec_conc", "norm3_sound", "Cmp.cmp_sound", "Cmp.searchVal_spec", "Cmp.matchAll_spec"]

SUBST = [("SUB", "ADD"), ("DIV", "SDIV"), ("SDIV", "DIV"), ("MOD", "SMOD"), ("SMOD", "MOD"), ("LT", "SLT"), ("SLT", "LT"),
         ("GT", "SGT"), ("SGT", "GT"), ("LT", "GT"), ("SHR", "SAR"), ("SAR", "SHR"), ("SHL", "SHR"), ("AND", "OR"),
         ("OR", "XOR"), ("ADD", "MUL"), ("EQ", "LT"), ("ISZERO", "NOT"), ("MSTORE", "MSTORE8"), ("MSTORE8", "MSTORE"),
         ("ADDMOD", "MULMOD"), ("CALLER", "ORIGIN"), ("CALLDATALOAD", "BLOCKHASH"), ("MLOAD", "SLOAD"),
         ("LOG1", "CALLDATACOPY"), ("CODECOPY", "CALLDATACOPY"), ("CALLDATACOPY", "RETURNDATACOPY"), ("LOG2", "EXTCODECOPY"),
         ("STATICCALL", "DELEGATECALL"), ("CREATE", "LOG1"), ("KECCAK256", "ADD"), ("BYTE", "SHR"), ("SIGNEXTEND", "BYTE"),
         ("EXP", "MUL"), ("BALANCE", "EXTCODESIZE"), ("TIMESTAMP", "NUMBER"), ("RETURN", "REVERT"), ("JUMP", "STOP")]
NONCOMM = {"SUB", "DIV", "SDIV", "MOD", "SMOD", "EXP", "LT", "GT", "SLT", "SGT", "SHL", "SHR", "SAR", "BYTE", "SIGNEXTEND",
           "MSTORE", "MSTORE8", "SSTORE", "KECCAK256"}


def split_items(text):
    """group PUSHn <v> / PUSH [tag] <v> / PUSHLIB <v> etc. into single items"""
    toks = text.split()
    items, i = [], 0
    while i < len(toks):
        t = toks[i]
        if re.fullmatch(r"PUSH\d+", t) or t in ("PUSHIMMUTABLE", "PUSHLIB"):
            items.append(t + " " + toks[i + 1]); i += 2
        elif t == "PUSH":
            items.append(" ".join(toks[i:i + 3])); i += 3
        else:
            items.append(t); i += 1
    return items


def mutate(rng, text):
    items = split_items(text)
    kinds = ["swap-operands", "opcode", "constant", "drop-store", "dup-store", "reorder-stores", "stack-index", "drop-instr"]
    for _ in range(12):
        k = rng.choice(kinds)
        it = list(items)
        if k == "swap-operands":
            pos = [i for i, x in enumerate(it) if x in NONCOMM]
            if not pos:
                continue
            it.insert(rng.choice(pos), "SWAP1")
        elif k == "opcode":
            cands = [(i, b) for i, x in enumerate(it) for a, b in SUBST if x == a]
            if not cands:
                continue
            i, b = rng.choice(cands)
            it[i] = b
        elif k == "constant":
            pos = [i for i, x in enumerate(it) if re.match(r"PUSH\d+ ", x)]
            if not pos:
                continue
            i = rng.choice(pos)
            v = int(it[i].split()[1], 16)
            nv = rng.choice([v + 1, v ^ 1, v + 32, 0 if v else 1, (v * 2) % (2 ** 256)]) % (2 ** 256)
            if nv == v:
                continue
            it[i] = gen.push(nv)
        elif k in ("drop-store", "dup-store", "reorder-stores"):
            pos = [i for i, x in enumerate(it) if x in ("MSTORE", "SSTORE", "MSTORE8")]
            if not pos:
                continue
            if k == "drop-store":
                i = rng.choice(pos)
                it[i] = "POP POP"
            elif k == "dup-store":
                i = rng.choice(pos)
                it[i] = "DUP2 DUP2 %s %s" % (it[i], it[i])
            else:
                if len(pos) < 2:
                    continue
                # swap the kinds of two stores
                i, j = rng.sample(pos, 2)
                if it[i] == it[j]:
                    it.insert(i, "SWAP1")
                else:
                    it[i], it[j] = it[j], it[i]
        elif k == "stack-index":
            pos = [i for i, x in enumerate(it) if re.fullmatch(r"(DUP|SWAP)\d+", x)]
            if not pos:
                continue
            i = rng.choice(pos)
            m = re.fullmatch(r"(DUP|SWAP)(\d+)", it[i])
            n = int(m.group(2))
            nn = rng.choice([x for x in (n - 1, n + 1, n + 2) if 1 <= x <= 16])
            it[i] = m.group(1) + str(nn)
        else:
            pos = [i for i, x in enumerate(it) if x in ("ISZERO", "NOT")]
            if not pos:
                continue
            del it[rng.choice(pos)]
        return k, " ".join(it)
    return None, None


def permutation_pairs():
    """every operation with two or three operands applied to distinct stack words against the same operation with its operands in every
    other order (as the top-level result, under another operation, and as the operand of a store); the judge decides which permutations
    are distinguishable"""
    import itertools
    out = []
    shuffles2 = {(1, 0): "SWAP1"}
    # stack [a, b, c] (a on top): bring the permutation p of (a, b, c) to the top three cells
    shuffles3 = {(1, 0, 2): "SWAP1", (2, 1, 0): "SWAP2", (0, 2, 1): "SWAP1 SWAP2 SWAP1", (1, 2, 0): "SWAP1 SWAP2", (2, 0, 1): "SWAP2 SWAP1"}
    for op in gen.BIN:
        for ctx in ("%s", "%s ISZERO", "%s PUSH1 0x0 MSTORE", "%s DUP1 ADD"):
            out.append((ctx % op, ctx % ("SWAP1 " + op)))
    for op in gen.TER:
        for p, sh in shuffles3.items():
            for ctx in ("%s", "%s ISZERO", "%s PUSH1 0x0 SSTORE", "%s PUSH1 0x1 ADD"):
                out.append((ctx % op, ctx % (sh + " " + op)))
    for st in ("MSTORE", "SSTORE", "MSTORE8"):
        out.append((st, "SWAP1 " + st))
    out.append(("KECCAK256", "SWAP1 KECCAK256"))
    return out


def reorder_pairs():
    """the same accesses with the same operands performed in the opposite order (store/store, load/store, hash/store; storage and memory;
    keys taken from the stack, so that they can coincide): equal as sets of operations, different as programs"""
    out = []
    for st in ("SSTORE", "MSTORE", "MSTORE8"):
        out.append(("%s %s" % (st, st), "SWAP2 SWAP1 SWAP3 SWAP1 %s %s" % (st, st)))
        out.append(("DUP4 DUP4 DUP4 DUP4 %s %s" % (st, st), "DUP2 DUP2 DUP6 DUP6 %s %s" % (st, st)))
    for ld, st in (("SLOAD", "SSTORE"), ("MLOAD", "MSTORE"), ("MLOAD", "MSTORE8")):
        out.append(("%s SWAP2 SWAP1 %s" % (ld, st), "SWAP2 SWAP1 %s %s" % (st, ld)))
        out.append(("DUP1 %s DUP4 DUP4 %s" % (ld, st), "DUP3 DUP3 %s DUP1 %s" % (st, ld)))
    out.append(("KECCAK256 SWAP2 SWAP1 MSTORE", "SWAP2 SWAP1 SWAP3 SWAP1 MSTORE KECCAK256"))
    # three accesses: a load moved across a store that may hit its place, its result stored afterwards (the two dependence lists then have
    # different lengths and the comparison goes through transitive closures)
    for ld, st, st2 in (("SLOAD", "SSTORE", "SSTORE"), ("MLOAD", "MSTORE", "MSTORE"), ("MLOAD", "MSTORE8", "MSTORE"), ("MLOAD", "MSTORE", "MSTORE8")):
        for place in ("PUSH1 0x10", "PUSH1 0x40", "DUP4"):
            out.append(("PUSH1 0x2a DUP2 %s DUP2 %s %s %s" % (st, ld, place, st2), "DUP2 %s PUSH1 0x2a DUP3 %s %s %s" % (ld, st, place, st2)))
            out.append(("PUSH1 0x2a DUP2 %s DUP2 %s DUP1 %s %s" % (st, ld, place, st2), "DUP2 %s DUP1 PUSH1 0x2a DUP4 %s %s %s" % (ld, st, place, st2)))
    out.append(("PUSH1 0x2a DUP2 MSTORE PUSH1 0x20 DUP3 KECCAK256 PUSH1 0x80 MSTORE", "PUSH1 0x20 DUP3 KECCAK256 PUSH1 0x2a DUP3 MSTORE PUSH1 0x80 MSTORE"))
    return out + [(b, a) for a, b in out]


def multiset_pairs():
    """an operation performed twice against one copy of it plus a different, independent operation of the same kind (a comparison of
    the two specifications' stores that is not one-to-one lets both copies match the same store), both directions"""
    out = []
    for st, a, b in (("SSTORE", "0x0", "0x40"), ("SSTORE", "0x1", "0x2"), ("MSTORE", "0x0", "0x40"), ("MSTORE", "0x20", "0x80"), ("MSTORE8", "0x0", "0x40")):
        twice = "PUSH1 0x5 PUSH1 %s %s PUSH1 0x5 PUSH1 %s %s" % (a, st, a, st)
        other = "PUSH1 0x5 PUSH1 %s %s PUSH1 0x7 PUSH1 %s %s" % (a, st, b, st)
        other2 = "PUSH1 0x5 PUSH1 %s %s PUSH1 0x5 PUSH1 %s %s" % (a, st, b, st)
        out += [(twice, other), (other, twice), (twice, other2), (other2, twice)]
        out += [("DUP2 DUP2 %s %s" % (st, st), "DUP2 DUP2 %s SWAP1 POP PUSH1 %s %s" % (st, b, st))]
    return out


def plain_of_items(items):
    out = []
    for d, v in items:
        if d == "PUSH":
            out.append(gen.push(int(str(v), 16)))
        elif v is None or "JUMP" in d:
            out.append(d)
        else:
            out.append("%s %s" % (d, v))
    return " ".join(out)


def result_mutant_pairs(tier, rng):
    """blocks on which rewrite rules fire, against operand-swapped copies of the *optimizer's own result* for them: the original side of
    the comparison then holds records that a rule rewrote (their flags included), the other side the rewritten shape written directly"""
    rules = gen.rule_corpus()
    blocks = (rules if tier != "quick" else rng.sample(rules, 160)) + ["DUP1 SWAP3 SWAP1 SHL SWAP2 SHL AND", "DUP1 SWAP3 SWAP1 SHL SWAP2 SHL OR",
                                                                     "PUSH1 0x1 DUP2 SHL DUP3 MUL", "PUSH1 0x1 DUP2 SHL DUP3 DIV", "DUP2 DUP2 SUB ISZERO", "DUP2 DUP2 XOR ISZERO"]
    pairs = []
    for text, opts, e, st in e2e.run_optimize(blocks, [["-greedy"]]):
        if e is None or "cand_items" not in e or e["cand_items"] == e["in_items"]:
            continue
        try:
            cand = plain_of_items(e["cand_items"])
        except (ValueError, TypeError):
            continue
        items = split_items(cand)
        pairs.append((text, cand))
        for i, x in enumerate(items):
            if x in NONCOMM:
                pairs.append((text, " ".join(items[:i] + ["SWAP1"] + items[i:])))
    return pairs


def run(tier):
    sd = common.seed()
    rng = random.Random(sd * 31337 + 5)
    po = common.proof_obligations("GasolVerif.Proofs.NormSound,GasolVerif.Proofs.CmpSound", THEOREMS)
    violations = [{"kind": "broken-proof-obligation", "what": b, "no_failing_input": True, "input": b} for b in po["broken"]]
    n = 500 if tier == "quick" else 8000
    blocks = gen.blocks(sd * 977 + 11, n, max_snippets=6)
    # hashes of written ranges used as keys / addresses, pairs of hashes: the dependence comparison has branches of its own for them
    mc_, hc_ = gen.mapping_corpus(), gen.hash_pair_corpus()
    blocks += rng.sample(mc_, min(len(mc_), 60 if tier == "quick" else 400)) + rng.sample(hc_, min(len(hc_), 30 if tier == "quick" else 200))
    osets = [["-greedy"], ["-greedy", "-storage"], ["-greedy", "-no-simplification"], ["-greedy", "-partition"]]
    tasks = []
    for i, b in enumerate(blocks):
        o = osets[i % len(osets)] if tier == "quick" else osets[i % len(osets)]
        tasks.append({"kind": "compare", "a": b, "b": b, "opts": o, "mut": "reflexive"})
        for _ in range(2):
            k, m = mutate(rng, b)
            if m is not None and m != b:
                tasks.append({"kind": "compare", "a": b, "b": m, "opts": o, "mut": k})
    for a, b in multiset_pairs():
        for o in osets:
            tasks.append({"kind": "compare", "a": a, "b": b, "opts": o, "mut": "multiset"})
    for a, b in reorder_pairs():
        for o in osets:
            tasks.append({"kind": "compare", "a": a, "b": b, "opts": o, "mut": "access-order"})
    for a, b in permutation_pairs():
        for o in (osets[:1] + osets[2:3]):
            tasks.append({"kind": "compare", "a": a, "b": b, "opts": o, "mut": "operand-permutation"})
    # the second block reads (and restores) deeper words than the first: same specification once untouched words are dropped
    for a, b in [("PUSH1 0x1 PUSH1 0x2 ADD", "DUP1 POP PUSH1 0x1 PUSH1 0x2 ADD"), ("PUSH1 0x1 PUSH1 0x2 ADD", "DUP3 POP PUSH1 0x3"), ("DUP1 DUP1 SUB", "DUP2 DUP1 SUB"),
                 ("DUP1 ISZERO", "DUP1 ISZERO DUP3 POP"), ("SWAP1 POP PUSH1 0x0", "SWAP1 POP DUP2 DUP1 SUB"), ("PUSH1 0x0 MLOAD", "SWAP2 SWAP2 PUSH1 0x0 MLOAD"),
                 ("CALLER", "DUP16 POP CALLER")]:
        for o in osets:
            tasks.append({"kind": "compare", "a": a, "b": b, "opts": o, "mut": "deeper-stack"})
    # two loads of the same place on either side of a store that may hit it, their results exchanged
    for ld, st in (("SLOAD", "SSTORE"), ("MLOAD", "MSTORE"), ("MLOAD", "MSTORE8")):
        a = "DUP3 %s SWAP2 SWAP1 %s SWAP1 %s" % (ld, st, ld)
        for o in (osets[:1] + osets[2:3]):
            tasks.append({"kind": "compare", "a": a, "b": a + " SWAP1", "opts": o, "mut": "identical-loads-exchanged"})
    # code moved across a split instruction next to an empty sub-block: the same number of sub-block specifications, differently placed
    for sp, pre in (("LOG0", "DUP2 DUP2"), ("LOG0", ""), ("LOG1", "DUP3 DUP3 DUP3"), ("CALLDATACOPY", "DUP3 DUP3 DUP3"), ("CALLDATACOPY", "")):
        for code in ("PUSH1 0x20 ADD", "SWAP1", "DUP1 ISZERO SWAP1 POP", "PUSH1 0x1 SWAP1 SUB"):
            a = ("%s %s %s %s" % (pre, sp, sp, code)).strip()
            b = ("%s %s %s %s" % (pre, sp, code, sp)).strip()
            for o in osets[:1]:
                tasks.append({"kind": "compare", "a": a, "b": b, "opts": o, "mut": "moved-across-split"})
                tasks.append({"kind": "compare", "a": b, "b": a, "opts": o, "mut": "moved-across-split"})
    # -partition: the store at which a long block is cut belongs to no sub-block
    pre, post = " ".join(["PUSH1 0x1 ADD"] * 12), " ".join(["PUSH1 0x1 ADD"] * 6)
    for st2 in ("MSTORE", "MSTORE8"):
        tasks.append({"kind": "compare", "a": "%s DUP1 PUSH1 0x0 SSTORE %s" % (pre, post), "b": "%s DUP1 PUSH1 0x0 %s %s" % (pre, st2, post),
                      "opts": ["-greedy", "-partition"], "mut": "partition-store-changed"})
    for a, b in result_mutant_pairs(tier, rng):
        tasks.append({"kind": "compare", "a": a, "b": b, "opts": ["-greedy"], "mut": "result-operand-swap"})
    groups = {}
    for t in tasks:
        groups.setdefault(tuple(t["opts"]), []).append(t)
    res = []
    for g in groups.values():
        res.extend(pool.run_tasks(g, timeout=25, nproc=6))
    c = Counter()
    # the checker's term comparison against its Lean model (Models/Cmp.lean): compare_target_stack and compare_variables on a grid of
    # variable pairs, for the specifications of the same pairs of blocks
    cmp_tasks = [{"kind": "cmp", "a": t["a"], "b": t["b"], "opts": t["opts"], "timeout": 40} for t in tasks if t["mut"] != "reflexive"]
    if tier == "quick":
        fixed = [t for t in cmp_tasks if False]
        cmp_tasks = cmp_tasks[:400] + cmp_tasks[-400:]
    cgroups = {}
    for t in cmp_tasks:
        cgroups.setdefault(tuple(t["opts"]), []).append(t)
    cres = []
    for g in cgroups.values():
        cres.extend(pool.run_tasks(g, timeout=40, nproc=6))
    creqs, cmeta = [], []
    for t, r, st in cres:
        if st != "ok" or r is None or "harness_error" in (r or {}) or "exception" in (r or {}):
            c["cmp-run:" + (st if st != "ok" else "front-end-exception")] += 1
            continue
        for e in r["subs"]:
            creqs.append("CMP\t%s\t%s\t%s" % (e["O"], e["P"], ";".join(e["pairs"])))
            cmeta.append((t, e))
    for o, (t, e) in zip(drv.batch(creqs), cmeta):
        parts = [x for x in o.split(" ") if x != ""]
        if parts[0].startswith("error"):
            raise common.MachineryError("driver CMP: " + o)
        ok, target, stores, rest = parts[0], parts[1], parts[2], parts[3:]
        c["cmp-specification-pairs"] += 1
        c["cmp-premises-" + ("hold" if ok == "1" else "fail")] += 1
        real = [e["target"], e["stores"]] + e["pair_results"]
        real = ["raise" if x == "recursion" else x for x in real]
        model = [target, stores] + rest
        c["cmp-decisions-compared"] += len(real)
        c["cmp-decisions-equal:" + e["target"]] += 1
        if real != model:
            k = next(i for i in range(min(len(real), len(model))) if real[i] != model[i]) if len(real) == len(model) else -1
            which = "compare_target_stack" if k == 0 else "compare_storage_userdef_ins" if k == 1 else ("compare_variables(%s)" % e["pairs"][k - 2] if k > 1 else "result lists of different length")
            violations.append({"kind": "checker-differs-from-model", "input": t["a"] + " | " + t["b"], "options": t["opts"], "no_failing_input": True,
                               "what": "correspondence Models/Cmp.lean <-> sfs_verify broken on the specifications of %s | %s (%s): %s gives %s, the model %s "
                                       "(theorem Cmp.cmp_sound is about the model)" % (t["a"], t["b"], t["opts"], which, real[k] if k >= 0 else len(real), model[k] if k >= 0 else len(model)),
                               "specs": [e["O"], e["P"]]})
    pairs = []
    for t, r, st in res:
        if st != "ok" or r is None or "harness_error" in (r or {}):
            c["run:" + st] += 1
            if st == "timeout":
                violations.append({"kind": "checker-does-not-terminate", "input": t["a"] + " | " + t["b"], "what": "compare timed out on " + t["a"] + " | " + t["b"]})
            continue
        if "parse_exception" in r:
            c["parse-skip"] += 1
            continue
        c["pairs"] += 1
        c["mut:" + t["mut"]] += 1
        if "exception" in r:
            violations.append({"kind": "checker-raises", "input": t["a"] + " | " + t["b"], "options": t["opts"],
                               "what": "compare_asm_block_asm_format raised %s on %s | %s" % (r["exception"], t["a"], t["b"])})
            continue
        if t["mut"] == "reflexive":
            c["reflexive"] += 1
            if not r["eq"] and "unsupported" not in r and not r["reason"].startswith("Analysis of"):
                violations.append({"kind": "checker-not-reflexive", "input": t["a"], "options": t["opts"],
                                   "what": "checker(B,B) = not equal (%s) for B = %s" % (r["reason"], t["a"])})
            elif not r["eq"]:
                c["reflexive-unanalysable"] += 1
            continue
        if not r["eq"]:
            c["rejected"] += 1
            continue
        c["accepted"] += 1
        if "unsupported" in r:
            c["accepted-unsupported-vocabulary"] += 1
            continue
        pairs.append({"text": t["a"], "mutant": t["b"], "opts": t["opts"], "mut": t["mut"], "in_tokens": r["a_tokens"],
                      "out_tokens": r["b_tokens"], "need": r["need"]})
    e2e.judge_pairs(pairs, 40 if tier == "quick" else 80, rng, check_proved=1)
    samples = []
    for p in pairs:
        c["accepted-" + p["verdict"]] += 1
        if p["verdict"] == "diff":
            violations.append({"kind": "checker-accepts-distinguishable", "input": p["text"] + " | " + p["mutant"], "options": p["opts"],
                               "mutation": p["mut"], "state": p["state"],
                               "what": "checker answers equal for %s | %s but %s" % (p["text"], p["mutant"], p["detail"])})
        elif p["verdict"] in ("inconsistent", "error"):
            raise common.MachineryError("validator/driver inconsistency: %s" % p)
        elif len(samples) < 5:
            samples.append({"a": p["text"], "b": p["mutant"], "mutation": p["mut"], "checker": "equal", "lean": p["verdict"]})
    # a correspondence break carries a failing input when the same pair is accepted although a state distinguishes it
    witnessed = {v["input"] for v in violations if v["kind"] in ("checker-accepts-distinguishable", "checker-not-reflexive", "checker-raises")}
    for v in violations:
        if v["kind"] == "checker-differs-from-model" and v["input"] in witnessed:
            v["no_failing_input"] = False
    cov = {"obligations": po["obligations"], "discharged": po["discharged"],
           "checker_cmd": "cd lean && lake build GasolVerif gvdrv; #print axioms " + ", ".join(THEOREMS),
           "trusted_base": ["Lean 4.33 kernel", "axioms: propext, Classical.choice, Quot.sound", "Evm.lean as EVM semantics",
                            "the real checker is judged per pair: accepted pairs must be proved equivalent by the Lean validator or survive concrete search"],
           "axioms": po["axioms"], "programs": c["pairs"], "disagreements_checked": c["accepted"],
           "evaluations": c["pairs"], "distinct_nontrivial": c["accepted"] + c["rejected"],
           "rule": "generated blocks, each compared with itself and with up to two semantic mutants (operand swap, opcode "
                   "substitution incl. signed/unsigned and split instructions, constant change, dropped/duplicated/reordered "
                   "store, DUP/SWAP index, dropped unary); non-trivial = a real mutant pair",
           "samples": samples or [{"a": blocks[0]}], "counters": dict(c)}
    return {"level": "translation_validation", "coverage": cov, "violations": violations,
            "assumptions": ["a pair accepted by the checker and not decided by the Lean validator is only tested on boundary states"]}


def replay(v):
    print(v.get("what"))
    return 1
