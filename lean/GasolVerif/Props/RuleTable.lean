/-
  C03: the inventory of simplification rules, by the names the code itself gives them.  `harness/extract.py` reads, with `ast` on every run,
  the names assigned in `apply_transform` (`rule = ...`) and in `apply_cond_transformation` (`msg = ...`); every name must have a certificate
  here: the identity on 256-bit words it stands for, with its proof (for all operands).  A rule added to the code without a certificate breaks
  `generated_rules_certified`.  That the code of a rule implements the identity of its name is the business of the correspondence of
  `apply_transform` and of the rule-block corpora (DESIGN section 8, C03).   No Mathlib.
-/
import GasolVerif.Proofs.WordLemmas
import GasolVerif.Evm
import GasolVerif.Generated.Globals
namespace GasolVerif.RuleTable
open GasolVerif Word

structure Cert where
  name : String
  stmt : Prop
  proof : stmt

def M : Word := BitVec.allOnes 256

def certs : List Cert :=
  [ -- local rules (apply_transform); a constant may stand on either side of a commutative operation
    ⟨"ADD(X,0)", ∀ x : Word, add 0#256 x = x ∧ add x 0#256 = x, fun x => ⟨add_zero_left x, by rw [add_comm', add_zero_left]⟩⟩,
    ⟨"AND(X,0)", ∀ x : Word, and 0#256 x = 0#256 ∧ and x 0#256 = 0#256, fun x => ⟨and_zero_left x, by rw [and_comm', and_zero_left]⟩⟩,
    ⟨"AND(X,2^256-1)", ∀ x : Word, and M x = x ∧ and x M = x, fun x => ⟨and_max_left x, by rw [and_comm']; exact and_max_left x⟩⟩,
    ⟨"AND(X,X)", ∀ x : Word, and x x = x, and_self⟩,
    ⟨"EQ(X,X)", ∀ x : Word, eq x x = 1#256, eq_self⟩,
    ⟨"EXP(1,X)", ∀ x : Word, exp 1#256 x = 1#256, one_exp⟩,
    ⟨"EXP(X,0)", ∀ x : Word, exp x 0#256 = 1#256, exp_zero⟩,
    ⟨"EXP(X,1)", ∀ x : Word, exp x 1#256 = x, exp_one⟩,
    ⟨"GT(0,X)", ∀ x : Word, gt 0#256 x = 0#256, gt_zero_left⟩,
    ⟨"ISZ(0)", iszero 0#256 = 1#256, by decide⟩,
    ⟨"ISZ(1)", iszero 1#256 = 0#256, by decide⟩,
    ⟨"LT(X,0)", ∀ x : Word, lt x 0#256 = 0#256, lt_zero_right⟩,
    ⟨"MOD(X,0)", ∀ x : Word, mod x 0#256 = 0#256, mod_zero⟩,
    ⟨"MOD(X,1)", ∀ x : Word, mod x 1#256 = 0#256, mod_one⟩,
    ⟨"MOD(X,X)", ∀ x : Word, mod x x = 0#256, mod_self⟩,
    ⟨"MUL(X,0)", ∀ x : Word, mul 0#256 x = 0#256 ∧ mul x 0#256 = 0#256, fun x => ⟨mul_zero_left x, by rw [mul_comm', mul_zero_left]⟩⟩,
    ⟨"MUL(X,1)", ∀ x : Word, mul 1#256 x = x ∧ mul x 1#256 = x, fun x => ⟨mul_one_left x, by rw [mul_comm', mul_one_left]⟩⟩,
    ⟨"NOT(X)", ∀ x : Word, not (not x) = x, not_not⟩,      -- the name of the fold of NOT on a constant; as an identity: an involution
    ⟨"OR(X,0)", ∀ x : Word, or 0#256 x = x ∧ or x 0#256 = x, fun x => ⟨or_zero_left x, by rw [or_comm', or_zero_left]⟩⟩,
    ⟨"OR(X,X)", ∀ x : Word, or x x = x, or_self⟩,
    ⟨"SUB(X,0)", ∀ x : Word, sub x 0#256 = x, sub_zero⟩,
    ⟨"SUB(X,X)", ∀ x : Word, sub x x = 0#256, sub_self⟩,
    ⟨"XOR(X,0)", ∀ x : Word, xor 0#256 x = x ∧ xor x 0#256 = x, fun x => ⟨xor_zero_left x, by rw [xor_comm', xor_zero_left]⟩⟩,
    ⟨"XOR(X,X)", ∀ x : Word, xor x x = 0#256, xor_self⟩,
    -- names built with the opcode at hand: every opcode the branch serves
    ⟨"{opcode}(0,X)", ∀ x : Word, shl 0#256 x = x ∧ shr 0#256 x = x, fun x => ⟨shl_zero_left x, shr_zero_left x⟩⟩,
    ⟨"{opcode}(X,0)", ∀ x : Word, div x 0#256 = 0#256 ∧ div 0#256 x = 0#256 ∧ sdiv x 0#256 = 0#256 ∧ sdiv 0#256 x = 0#256 ∧ shl x 0#256 = 0#256 ∧ shr x 0#256 = 0#256,
      fun x => ⟨div_zero x, zero_div x, sdiv_zero x, zero_sdiv x, shl_zero_right x, shr_zero_right x⟩⟩,
    ⟨"{opcode}(X,1)", ∀ x : Word, div x 1#256 = x ∧ sdiv x 1#256 = x, fun x => ⟨div_one x, sdiv_one x⟩⟩,
    ⟨"{opcode}(X,X)", ∀ x : Word, gt x x = 0#256 ∧ lt x x = 0#256 ∧ sgt x x = 0#256 ∧ slt x x = 0#256, fun x => ⟨gt_self x, lt_self x, sgt_self x, slt_self x⟩⟩,
    -- contextual rules (apply_cond_transformation)
    ⟨"AND(ADDRESS,2^160)", ∀ (e : Env), e.wf → ∀ tr, (e.env0 "ADDRESS" tr) &&& addrMask = e.env0 "ADDRESS" tr, fun e we tr => we.addr160 "ADDRESS" (by simp) tr⟩,
    ⟨"AND(ORIGIN,2^160-1)", ∀ (e : Env), e.wf → ∀ tr, (e.env0 "ORIGIN" tr) &&& addrMask = e.env0 "ORIGIN" tr ∧ (e.env0 "CALLER" tr) &&& addrMask = e.env0 "CALLER" tr,
      fun e we tr => ⟨we.addr160 "ORIGIN" (by simp) tr, we.addr160 "CALLER" (by simp) tr⟩⟩,
    ⟨"AND(SHL(X,Y), SHL(X,Z))", ∀ s y z : Word, and (shl s y) (shl s z) = shl s (and y z), and_shl_shl⟩,
    ⟨"AND(X,AND(X,Y))", ∀ p q : Word, and p (and p q) = and p q ∧ and q (and p q) = and p q, fun p q => ⟨and_and_left p q, and_and_right p q⟩⟩,
    ⟨"AND(X,NOT(X))", ∀ x : Word, and x (not x) = 0#256 ∧ and (not x) x = 0#256, fun x => ⟨and_not_self x, not_and_self x⟩⟩,
    ⟨"AND(X,OR(X,Y))", ∀ p q : Word, and p (or p q) = p ∧ and q (or p q) = q, fun p q => ⟨and_or_left p q, and_or_right p q⟩⟩,
    ⟨"BALANCE(ADDRESS)", ∀ (e : Env), e.wf → ∀ tr, e.env1 "BALANCE" tr (e.env0 "ADDRESS" tr) = e.env0 "SELFBALANCE" tr, fun e we tr => we.selfbal tr⟩,
    ⟨"DIV(X,SHL(Y,1))", ∀ x y : Word, div x (shl y 1#256) = shr y x, div_shl_one⟩,
    ⟨"EQ(0,X)", ∀ x : Word, eq 0#256 x = iszero x, eq_zero_left⟩,
    ⟨"EQ(1,ISZ(X))", ∀ b : Bool, eq 1#256 (ofBool b) = ofBool b, eq_one_ofBool⟩,
    ⟨"EXP(0,X)", ∀ x : Word, exp 0#256 x = iszero x, zero_exp⟩,
    ⟨"EXP(2,X)", ∀ x : Word, exp 2#256 x = shl x 1#256, two_exp⟩,
    ⟨"GT(1,X)", ∀ x : Word, gt 1#256 x = iszero x, gt_one_left⟩,
    ⟨"ISZ(GT(X,0))", ∀ x : Word, iszero (gt x 0#256) = iszero x, iszero_gt_zero⟩,
    ⟨"ISZ(ISZ(EQ(X,Y)))", ∀ b : Bool, iszero (iszero (ofBool b)) = ofBool b, iszero_iszero_ofBool⟩,
    ⟨"ISZ(ISZ(ISZ(X)))", ∀ x : Word, iszero (iszero (iszero x)) = iszero x, iszero_iszero_iszero⟩,
    ⟨"ISZ(ISZ({opcode}(X,Y)))", ∀ b : Bool, iszero (iszero (ofBool b)) = ofBool b, iszero_iszero_ofBool⟩,
    ⟨"ISZ(LT(0,X))", ∀ x : Word, iszero (lt 0#256 x) = iszero x, iszero_lt_zero⟩,
    ⟨"ISZ(SUB(X,Y))", ∀ x y : Word, iszero (sub x y) = eq x y, iszero_sub⟩,
    ⟨"ISZ(XOR(X,Y))", ∀ x y : Word, iszero (xor x y) = eq x y, iszero_xor⟩,
    ⟨"LT(X,1)", ∀ x : Word, lt x 1#256 = iszero x, lt_one_right⟩,
    ⟨"MUL(SHL(X,1),Y)", ∀ x y : Word, mul (shl y 1#256) x = shl y x, shl_one_mul⟩,
    ⟨"MUL(X,SHL(Y,1)", ∀ x y : Word, mul x (shl y 1#256) = shl y x, mul_shl_one⟩,
    ⟨"NOT(NOT(X))", ∀ x : Word, not (not x) = x, not_not⟩,
    ⟨"OR(OR(X,Y),Y)", ∀ p q : Word, or (or p q) q = or p q ∧ or (or p q) p = or p q, fun p q => ⟨or_or_right' p q, or_or_left' p q⟩⟩,
    ⟨"OR(X,AND(X,Y))", ∀ p q : Word, or p (and p q) = p ∧ or q (and p q) = q, fun p q => ⟨or_and_left p q, or_and_right p q⟩⟩,
    ⟨"OR(X,NOT(X))", ∀ x : Word, or x (not x) = M ∧ or (not x) x = M, fun x => ⟨or_not_self x, not_or_self x⟩⟩,
    ⟨"XOR(X,XOR(X,Y))", ∀ p q : Word, xor p (xor p q) = q ∧ xor q (xor p q) = p, fun p q => ⟨xor_xor_left p q, xor_xor_right p q⟩⟩ ]

open Generated in
/-- every rule the code names has a certificate: an identity on all 256-bit operands with its proof -/
theorem generated_rules_certified : ruleNames.all (fun n => (certs.map (·.name)).contains n) = true := by decide +kernel

end GasolVerif.RuleTable
