#!/bin/bash
# usage: harness/seedtest.sh <patch.diff> <Cxx> [<Cyy> ...]   -- applies a seeded change to /repo, runs checks, restores /repo
set -u
patch="$1"; shift
cd /verif
if ! git -C /repo diff --quiet; then echo "/repo has uncommitted changes"; exit 2; fi
git -C /repo apply "$patch" || { echo "patch does not apply"; exit 2; }
for c in "$@"; do
  echo "=== $c with $(basename $(dirname $patch))"
  VERIF_SEED=${VERIF_SEED:-0} ./check "$c" --tier quick 2>&1 | grep -E "VIOLATION|KNOWN|OK|violation|MACHINERY" | cut -c1-220 | head -8
done
git -C /repo checkout -- .
git -C /repo status --short | head -3
rm -f /verif/replays/*.json
