"""C02 — the specification denotes the block under every admissible schedule."""
import random, itertools
from collections import Counter
import common, gen, pool, drv

THEOREMS = ["equiv_norm3_sound", "symExec_conc", "norm3_sound", "Norm.disjoint_sound", "Norm.keysDiffer_sound", "schedule_indep",
            "Spec.actEff_comm", "Spec.checked_schedules_agree", "Spec.termOf_sim", "Spec.runSchedule_sim",
            "Spec.evalSpec_denote", "Spec.spec_schedule_independent", "Spec.scheduleMatches_sound",
            "Spec.spec_denotes_block_under_every_schedule", "Spec.prune_evalSpec", "Spec.spec_denotes_block_pruned", "Spec.termOf_mono"]
LOADS = ("MLOAD", "SLOAD", "KECCAK256", "SHA3")


def data_edges(e):
    """effect -> effect edges through data flow (a load result used, possibly through pure instructions)"""
    prod = {}
    for uid, op, inp, out in e["uinstrs"]:
        for o in out:
            prod[o] = (uid, op, inp)
    eff = set(e["effects"])

    def uses(var, target, seen):
        if var == target:
            return True
        if var in seen or var not in prod:
            return False
        seen.add(var)
        uid, op, inp = prod[var]
        if uid in eff:
            return False
        return any(uses(a, target, seen) for a in inp)
    edges = []
    for uid, op, inp, out in e["uinstrs"]:
        if uid in eff and out:
            for cid, cop, cinp, cout in e["uinstrs"]:
                if cid in eff and cid != uid and any(uses(a, out[0], set()) for a in cinp):
                    edges.append((uid, cid))
    return edges


def linear_extensions(nodes, edges, rng, limit):
    """L0 (smallest id first) plus up to `limit` further linear extensions (all of them when few)"""
    succ = {n: set() for n in nodes}
    indeg = {n: 0 for n in nodes}
    for a, b in edges:
        if a in succ and b in succ and b not in succ[a]:
            succ[a].add(b)
            indeg[b] += 1

    def topo(choose):
        deg = dict(indeg)
        avail = sorted(n for n in nodes if deg[n] == 0)
        out = []
        while avail:
            n = choose(avail)
            avail.remove(n)
            out.append(n)
            for m in succ[n]:
                deg[m] -= 1
                if deg[m] == 0:
                    avail.append(m)
            avail.sort()
        return out if len(out) == len(nodes) else None
    L0 = topo(lambda av: av[0])
    if L0 is None:
        return None
    res = [L0]
    seen = {tuple(L0)}
    rev = topo(lambda av: av[-1])
    for L in [rev] + [topo(lambda av: rng.choice(av)) for _ in range(limit * 3)]:
        if L is not None and tuple(L) not in seen and len(res) <= limit:
            seen.add(tuple(L))
            res.append(L)
    return res


def collect(tier, sd, rng, greedy=False, extra=()):
    n = 360 if tier == "quick" else 5000
    blocks = gen.blocks(sd * 211 + 6, n, profiles=("mem", "mixed", "mem", "arith"))
    # memory traffic at constant, unaligned and symbolic+constant offsets, hashes over stored ranges
    for _ in range(240 if tier == "quick" else 3000):
        g = gen.BlockGen(rng, "mem")
        out = []
        for _ in range(rng.randrange(2, 6)):
            g.mem_snippet(out)
        if rng.random() < 0.3:
            g.arith_snippet(out)
        blocks.append(" ".join(out))
    osets = [["-greedy"], ["-greedy", "-storage"], ["-greedy", "-partition"], ["-greedy", "-no-simplification"]]
    corpus = gen.mem_pair_corpus() + gen.consuming_rule_corpus() + gen.store_of_load_corpus() + gen.hash_pair_corpus() + gen.dead_load_corpus() + gen.overwritten_store_corpus() + gen.mapping_corpus() + gen.folded_key_corpus()
    tasks = [{"kind": "spec", "text": b, "opts": ["-greedy"], "greedy": greedy} for b in list(corpus) + list(extra)] + [{"kind": "spec", "text": b, "opts": osets[i % len(osets)] if tier == "quick" else o, "greedy": greedy}
             for i, b in enumerate(blocks) for o in ([None] if tier == "quick" else osets)]
    groups = {}
    for t in tasks:
        groups.setdefault(tuple(t["opts"]), []).append(t)
    res = []
    for g in groups.values():
        res.extend(pool.run_tasks(g, timeout=40, nproc=6))
    return res


def run(tier):
    sd = common.seed()
    rng = random.Random(sd * 8191 + 15)
    po = common.proof_obligations("GasolVerif.Proofs.Schedule,GasolVerif.Proofs.SpecSim,GasolVerif.Proofs.PruneSound", THEOREMS)
    violations = [{"kind": "broken-proof-obligation", "what": b, "no_failing_input": True, "input": b} for b in po["broken"]]
    res = collect(tier, sd, rng)
    c = Counter()
    reqs, meta = [], []
    for t, r, st in res:
        if st != "ok" or r is None or "harness_error" in (r or {}) or "parse_exception" in (r or {}):
            c["run:" + st] += 1
            continue
        for ex in r.get("exceptions", []):
            c["analysis-exception"] += 1
        for e in r["subs"]:
            c["specs"] += 1
            if "unsupported" in e:
                c["unsupported"] += 1
                continue
            edges = [tuple(d) for d in e["deps"]] + data_edges(e)
            Ls = linear_extensions(e["effects"], edges, rng, 12 if tier == "quick" else 40)
            if Ls is None:
                violations.append({"kind": "cyclic-dependences", "input": t["text"], "options": t["opts"],
                                   "what": "dependences and data flow of %s (%s) are cyclic: %s" % (e["name"], t["text"], edges)})
                continue
            c["schedules"] += len(Ls)
            c["effects:%d" % min(len(e["effects"]), 6)] += 1
            if len(Ls) > 1:
                c["specs-with-several-schedules"] += 1
            reqs.append("SPECCHK\t%s\t%s\t%s" % (e["tokens"], "\t".join(e["spec"]), "|".join(",".join(L) for L in Ls)))
            meta.append((t, e, Ls))
    outs = drv.batch(reqs)
    samples = []
    mism = []
    for o, (t, e, Ls) in zip(outs, meta):
        key = o.split(":")[0]
        c["verdict:" + key] += 1
        if o.startswith("ok"):
            # link back to the emitted specification (prune_evalSpec / spec_denotes_block_pruned): does it evaluate under the full schedule?
            if ":emitted-evaluates" in o:
                c["emitted-specification-evaluates"] += 1
            elif ":pruned-only" in o:
                c["only-the-pruned-specification-evaluates"] += 1
            if ":removed=" in o and not o.endswith(":removed=0"):
                c["specifications-with-removed-loads"] += 1
            if len(Ls) > 1 and len(samples) < 4:
                samples.append({"block": " ".join(e["plain"]), "options": t["opts"], "schedules_checked": Ls[:3], "deps": e["deps"]})
        elif o.startswith("conflict"):
            violations.append({"kind": "overlapping-accesses-unordered", "input": " ".join(e["plain"]), "options": t["opts"],
                               "what": "in the specification of %s (%s) the operations %s may overlap and are not ordered by %s" %
                                       (" ".join(e["plain"]), t["opts"], o[9:], e["deps"]), "spec": e["spec"]})
        elif o.startswith("mismatch"):
            # the normal forms differ: that is a question, not an answer - look for a state on which the specification evaluated under that
            # schedule and the block really differ
            mism.append((t, e, o.split(":", 2)[2]))
        else:
            c["undecided:" + o[:40]] += 1
    sreqs, smeta = [], []
    for t, e, sched in mism:
        need = len([x for x in e["spec"][0].split(",") if x])
        nd = drv.batch(["NEED\t%s" % e["tokens"]])[0].split()
        if nd and nd[0].isdigit():
            need = max(need, int(nd[0]))
        for sd_, stk in gen.states(rng, need, 24 if tier == "quick" else 48):
            sreqs.append("SPECRUN\t%d\t%s\t%s\t%s\t%s" % (sd_, stk, e["tokens"], "\t".join(e["spec"]), sched))
            smeta.append((t, e, sched, sd_, stk))
    shown = set()
    decided = {}
    for o, (t, e, sched, sd_, stk) in zip(drv.batch(sreqs), smeta):
        key = (" ".join(e["plain"]), tuple(t["opts"]), sched)
        if o.startswith("diff") and key not in shown:
            shown.add(key)
            violations.append({"kind": "schedule-differs-from-block", "input": " ".join(e["plain"]), "options": t["opts"],
                               "what": "specification of %s (%s) evaluated under the admissible schedule %s is not the block: from the seeded state %d with stack [%s]: %s" %
                                       (" ".join(e["plain"]), t["opts"], sched, sd_, stk, o[5:]), "spec": e["spec"], "state": {"seed": sd_, "stack": stk}, "no_failing_input": False})
        elif o.startswith("error"):
            raise common.MachineryError("driver SPECRUN: " + o)
        decided.setdefault(key, set()).add(o.split(":")[0])
    for key, vs in decided.items():
        if "diff" not in vs:
            c["undecided:normal-forms-differ-but-no-state-distinguishes"] += 1
    cov = {"obligations": po["obligations"], "discharged": po["discharged"],
           "checker_cmd": "cd lean && lake build GasolVerif gvdrv; #print axioms " + ", ".join(THEOREMS),
           "trusted_base": ["Lean 4.33 kernel", "axioms: propext, Classical.choice, Quot.sound", "Evm.lean / Term.lean semantics",
                            "Models/Spec.lean evalSpec as the meaning of a specification under a schedule (defined by translation to terms)",
                            "spec_schedule_independent is proved for the model's evalSpec; its executable premises (namesOk, Nodup, isPerm, "
                            "conflictsOrdered, respectsB) are run by SPECCHK on every specification the real front end emits",
                            "parseSpec + the harness's JSON->line serialisation of the emitted specification (modelled, validated by scheduleMatches against the block)"],
           "axioms": po["axioms"], "programs": c["specs"], "disagreements_checked": c["verdict:conflict"] + c["verdict:mismatch"],
           "evaluations": c["schedules"], "distinct_nontrivial": c["specs-with-several-schedules"],
           "rule": "specifications the real front end produces for generated blocks (memory-heavy profiles: constant, unaligned, "
                   "symbolic+constant offsets, MSTORE8 inside words, hashes over stored ranges) x split modes x rules on/off; for each, the "
                   "Lean check `firstConflict` (may-overlap pairs must be ordered by dependences+data flow) and `scheduleMatches` for the "
                   "canonical, the reversed and random admissible schedules; non-trivial = more than one admissible schedule",
           "samples": samples or [{"request": reqs[0][:300]}], "counters": dict(c)}
    return {"level": "translation_validation", "coverage": cov, "violations": violations,
            "assumptions": ["a specification whose comparison the normaliser cannot decide is counted under undecided, not as a violation",
                            "per specification: the universal statement over schedules, states and environments is the kernel-checked theorem Spec.spec_denotes_block_under_every_schedule; its executable premises (namesOk, Nodup/isPerm, conflictsOrdered, respectsB, scheduleMatches for one schedule) are evaluated by the Lean driver on each specification the real front end emits; over blocks the check samples"]}


def replay(v):
    print(v.get("what"))
    return 1
