"""Document-level helpers: run the real CLI on synthesized/shipped documents, walk assembly JSON independently."""
import json, os, glob
import pool, docs, vocab

SKELETON = {"tag", "JUMPDEST", "JUMP", "JUMPI", "STOP", "RETURN", "REVERT", "INVALID", "SELFDESTRUCT"} | \
           {k for k in vocab.EXT if k not in ("tag",)}


def code_sections(doc):
    """yield (path, items) for every .code list of a combined-json asm document (own walker)"""
    for cname, c in doc.get("contracts", {}).items():
        asm = c.get("asm") if isinstance(c, dict) else None
        if not asm:
            continue
        yield (cname, ".code"), asm.get(".code", [])

        def walk(data, path):
            for k, v in (data or {}).items():
                if isinstance(v, dict):
                    yield path + (k, ".code"), v.get(".code", [])
                    yield from walk(v.get(".data"), path + (k,))
        yield from walk(asm.get(".data"), (cname,))


def metadata(doc):
    """everything except instruction lists"""
    def strip(x):
        if isinstance(x, dict):
            return {k: ("<code>" if k == ".code" else strip(v)) for k, v in x.items()}
        return x
    return strip(doc)


def blocks_of(items):
    """cut an item list into basic blocks the way the assembler does (own implementation)"""
    out, cur = [], []
    for it in items:
        if it["name"] == "tag" and cur:
            out.append(cur); cur = []
        cur.append(it)
        if it["name"] in ("JUMP", "JUMPI", "STOP", "RETURN", "REVERT", "INVALID"):
            out.append(cur); cur = []
    if cur:
        out.append(cur)
    return out


def item_token(it):
    return vocab.token(it["name"], it.get("value"))


def run_docs(doclist, args, inject=None, env=None, timeout=300, nproc=8):
    """doclist: [(name, doc-dict-or-text)] -> list of result dicts (with 'doc', 'name')"""
    tasks = []
    for name, d in doclist:
        text = d if isinstance(d, str) else json.dumps(d)
        t = {"kind": "cli", "files": {name: text}, "args": [name] + list(args), "timeout": timeout, "cli_timeout": timeout - 20}
        if inject:
            t["inject"] = inject
        if env:
            t["env"] = env
        tasks.append(t)
    res = pool.run_tasks(tasks, timeout=timeout, nproc=nproc)
    out = []
    for (name, d), (t, r, st) in zip(doclist, res):
        out.append({"name": name, "doc": d, "status": st, "res": r})
    return out


def synthesized(seed, n, **kw):
    return [("doc%d.json_solc" % i, docs.make_doc(seed * 1000 + i, **kw)) for i in range(n)]


def shipped(limit_bytes=60000):
    out = []
    for f in sorted(glob.glob(os.path.join(os.environ.get("GASOL_REPO", "/repo"), "examples", "jsons-solc", "*.json_solc"))):
        if os.path.getsize(f) <= limit_bytes:
            out.append((os.path.basename(f), open(f).read()))
    return out
