/-
  (F) Foundations: EVM word arithmetic on `BitVec 256` (Yellow Paper, appendix H).
  Specification side; not tied to GASOL. No Mathlib imports in this file.
-/
namespace GasolVerif

abbrev Word := BitVec 256

namespace Word

@[inline] def ofBool (b : Bool) : Word := if b then 1#256 else 0#256

def add (a b : Word) : Word := a + b
def mul (a b : Word) : Word := a * b
def sub (a b : Word) : Word := a - b
/-- unsigned division, `x / 0 = 0` -/
def div (a b : Word) : Word := if b = 0#256 then 0#256 else a / b
/-- signed division truncating toward zero, `x / 0 = 0`, `MIN / -1 = MIN` -/
def sdiv (a b : Word) : Word := if b = 0#256 then 0#256 else BitVec.sdiv a b
def mod (a b : Word) : Word := if b = 0#256 then 0#256 else a % b
/-- signed remainder, sign of the dividend, `x % 0 = 0` -/
def smod (a b : Word) : Word := if b = 0#256 then 0#256 else BitVec.srem a b
def addmod (a b n : Word) : Word :=
  if n = 0#256 then 0#256 else BitVec.ofNat 256 ((a.toNat + b.toNat) % n.toNat)
def mulmod (a b n : Word) : Word :=
  if n = 0#256 then 0#256 else BitVec.ofNat 256 ((a.toNat * b.toNat) % n.toNat)

/-- square-and-multiply; `wpow a n = a ^ n` is `Word.wpow_eq` in `Proofs/WordLemmas`. -/
def wpow (a : Word) (n : Nat) : Word :=
  if _h : n = 0 then 1#256
  else
    let r := wpow (a * a) (n / 2)
    if n % 2 = 1 then a * r else r
termination_by n
decreasing_by omega

def exp (a b : Word) : Word := wpow a b.toNat

def lt (a b : Word) : Word := ofBool (decide (a.toNat < b.toNat))
def gt (a b : Word) : Word := ofBool (decide (b.toNat < a.toNat))
def slt (a b : Word) : Word := ofBool (decide (a.toInt < b.toInt))
def sgt (a b : Word) : Word := ofBool (decide (b.toInt < a.toInt))
def eq (a b : Word) : Word := ofBool (decide (a = b))
def iszero (a : Word) : Word := ofBool (decide (a = 0#256))
def and (a b : Word) : Word := a &&& b
def or (a b : Word) : Word := a ||| b
def xor (a b : Word) : Word := a ^^^ b
def not (a : Word) : Word := ~~~a
/-- `BYTE i x`: byte `i` counted from the most significant end; `i ≥ 32 ⇒ 0`. -/
def byte (i x : Word) : Word :=
  if i.toNat < 32 then (x >>> (8 * (31 - i.toNat))) &&& 0xff#256 else 0#256
def shl (s x : Word) : Word := if s.toNat < 256 then x <<< s.toNat else 0#256
def shr (s x : Word) : Word := if s.toNat < 256 then x >>> s.toNat else 0#256
def sar (s x : Word) : Word := x.sshiftRight (min s.toNat 256)
/-- `SIGNEXTEND k x`: extend the sign of the `(k+1)`-byte value `x`; `k ≥ 31 ⇒ x`. -/
def signextend (k x : Word) : Word :=
  if k.toNat < 31 then
    let bit := 8 * k.toNat + 7
    let low : Word := (1#256 <<< (bit + 1)) - 1#256
    if x.getLsbD bit then x ||| ~~~low else x &&& low
  else x

end Word

inductive UnOp | iszero | not
  deriving DecidableEq, Repr, Inhabited

inductive BinOp
  | add | mul | sub | div | sdiv | mod | smod | exp | signextend
  | lt | gt | slt | sgt | eq | and | or | xor | byte | shl | shr | sar
  deriving DecidableEq, Repr, Inhabited

inductive TerOp | addmod | mulmod
  deriving DecidableEq, Repr, Inhabited

def UnOp.sem : UnOp → Word → Word
  | .iszero => Word.iszero
  | .not => Word.not

/-- first argument is the top of the stack -/
def BinOp.sem : BinOp → Word → Word → Word
  | .add => Word.add | .mul => Word.mul | .sub => Word.sub | .div => Word.div
  | .sdiv => Word.sdiv | .mod => Word.mod | .smod => Word.smod | .exp => Word.exp
  | .signextend => Word.signextend | .lt => Word.lt | .gt => Word.gt | .slt => Word.slt
  | .sgt => Word.sgt | .eq => Word.eq | .and => Word.and | .or => Word.or | .xor => Word.xor
  | .byte => Word.byte | .shl => Word.shl | .shr => Word.shr | .sar => Word.sar

def TerOp.sem : TerOp → Word → Word → Word → Word
  | .addmod => Word.addmod
  | .mulmod => Word.mulmod

def UnOp.name : UnOp → String
  | .iszero => "ISZERO" | .not => "NOT"
def BinOp.name : BinOp → String
  | .add => "ADD" | .mul => "MUL" | .sub => "SUB" | .div => "DIV" | .sdiv => "SDIV" | .mod => "MOD"
  | .smod => "SMOD" | .exp => "EXP" | .signextend => "SIGNEXTEND" | .lt => "LT" | .gt => "GT"
  | .slt => "SLT" | .sgt => "SGT" | .eq => "EQ" | .and => "AND" | .or => "OR" | .xor => "XOR"
  | .byte => "BYTE" | .shl => "SHL" | .shr => "SHR" | .sar => "SAR"
def TerOp.name : TerOp → String
  | .addmod => "ADDMOD" | .mulmod => "MULMOD"

def UnOp.all : List UnOp := [.iszero, .not]
def BinOp.all : List BinOp :=
  [.add, .mul, .sub, .div, .sdiv, .mod, .smod, .exp, .signextend, .lt, .gt, .slt, .sgt, .eq,
   .and, .or, .xor, .byte, .shl, .shr, .sar]
def TerOp.all : List TerOp := [.addmod, .mulmod]

def UnOp.ofName? (s : String) : Option UnOp := UnOp.all.find? (·.name == s)
def BinOp.ofName? (s : String) : Option BinOp := BinOp.all.find? (·.name == s)
def TerOp.ofName? (s : String) : Option TerOp := TerOp.all.find? (·.name == s)

/-- commutative binary operators (semantically; `BinOp.comm_sound` in the proofs) -/
def BinOp.comm : BinOp → Bool
  | .add | .mul | .eq | .and | .or | .xor => true
  | _ => false

end GasolVerif
