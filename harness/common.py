"""Shared machinery of the checks: Lean build + audit, evidence, known findings, replays."""
import hashlib, json, os, re, subprocess, sys, time

ROOT = os.path.dirname(os.path.dirname(os.path.abspath(__file__)))
LEAN = os.path.join(ROOT, "lean")
REPO = os.environ.get("GASOL_REPO", "/repo")
ALLOWED_AXIOMS = {"propext", "Classical.choice", "Quot.sound"}
FORBIDDEN = re.compile(r"\bsorry\b|\badmit\b|^\s*axiom\s|native_decide|bv_decide|implemented_by|\bunsafe\s|maxHeartbeats\s+0")


class MachineryError(Exception):
    """the check itself could not run (exit 2), never a verdict"""


def seed():
    try:
        return int(os.environ.get("VERIF_SEED", "0"))
    except ValueError:
        return 0


def lean_build(targets=("GasolVerif", "gvdrv")):
    """incremental `lake build`; returns (ok, output)"""
    t0 = time.time()
    p = subprocess.run(["lake", "build"] + list(targets), cwd=LEAN, capture_output=True, text=True)
    return p.returncode == 0, (p.stdout + p.stderr)[-6000:], time.time() - t0


def strip_comments(text):
    # remove /- ... -/ (nested not needed here) and -- comments
    text = re.sub(r"/-.*?-/", "", text, flags=re.S)
    return "\n".join(l.split("--")[0] for l in text.split("\n"))


def audit_sources():
    """grep the Lean sources (outside comments) for forbidden constructs"""
    hits = []
    for dp, dn, fn in os.walk(LEAN):
        if ".lake" in dp:
            continue
        for f in fn:
            if f.endswith(".lean"):
                path = os.path.join(dp, f)
                for i, l in enumerate(strip_comments(open(path).read()).split("\n")):
                    if FORBIDDEN.search(l):
                        hits.append("%s:%d: %s" % (os.path.relpath(path, ROOT), i + 1, l.strip()[:120]))
    return hits


def print_axioms(module, theorems):
    """`#print axioms` on each theorem; returns {theorem: [axioms]} (None on failure)"""
    src = "".join("import %s\n" % m for m in module.split(",")) + "open GasolVerif\n" + "".join("#print axioms %s\n" % t for t in theorems)
    tmp = os.path.join(LEAN, ".lake", "axcheck_%d.lean" % os.getpid())
    os.makedirs(os.path.dirname(tmp), exist_ok=True)
    open(tmp, "w").write(src)
    try:
        p = subprocess.run(["lake", "env", "lean", tmp], cwd=LEAN, capture_output=True, text=True)
    finally:
        try:
            os.remove(tmp)
        except OSError:
            pass
    out = p.stdout + p.stderr
    res = {}
    for t in theorems:
        m = re.search(r"'(?:GasolVerif\.)?%s' depends on axioms: \[([^\]]*)\]" % re.escape(t), out)
        m2 = re.search(r"'(?:GasolVerif\.)?%s' does not depend on any axioms" % re.escape(t), out)
        if m:
            res[t] = [a.strip() for a in m.group(1).split(",") if a.strip()]
        elif m2:
            res[t] = []
        else:
            res[t] = None
    return res, out[-3000:]


def proof_obligations(module, theorems):
    """Build + audit. Returns dict(obligations, discharged, broken=[names], axioms, detail)."""
    # (G) regenerate the tables extracted from /repo before building: the generated obligations are then about the current source
    gen_error = None
    try:
        import extract
        extract.generate()
    except Exception as ex:
        gen_error = "extraction from /repo failed (%s: %s)" % (type(ex).__name__, ex)
    ok, out, wall = lean_build()
    r = {"obligations": len(theorems), "discharged": 0, "broken": [], "axioms": {}, "build_ok": ok,
         "build_wall_s": round(wall, 1)}
    if gen_error:
        r["broken"] = [gen_error]
        return r
    if not ok:
        r["broken"] = ["lake build: " + out[-1500:]]
        return r
    hits = audit_sources()
    if hits:
        r["broken"] = ["forbidden construct: " + h for h in hits]
        return r
    ax, raw = print_axioms(module, theorems)
    for t in theorems:
        a = ax.get(t)
        if a is None:
            r["broken"].append("theorem not found: " + t)
        elif not set(a) <= ALLOWED_AXIOMS:
            r["broken"].append("theorem %s uses axioms %s" % (t, a))
        else:
            r["discharged"] += 1
        r["axioms"][t] = a
    return r


def known_findings():
    p = os.path.join(ROOT, "known_findings.json")
    if not os.path.exists(p):
        return {"open": [], "fixed": []}
    return json.load(open(p))


def write_replay(prop, payload):
    os.makedirs(os.path.join(ROOT, "replays"), exist_ok=True)
    h = hashlib.sha1(json.dumps(payload, sort_keys=True).encode()).hexdigest()[:12]
    rel = "replays/%s-%s.json" % (prop, h)
    payload = dict(payload, property=prop)
    json.dump(payload, open(os.path.join(ROOT, rel), "w"), indent=1, sort_keys=True)
    return rel


def write_evidence(prop, tier, level, coverage, wall, violations, assumptions):
    os.makedirs(os.path.join(ROOT, "evidence"), exist_ok=True)
    ev = {"property_id": prop, "tier": tier, "seed": seed(), "level": level, "coverage": coverage,
          "assumptions": assumptions, "wall_s": round(wall, 2), "violations": violations}
    json.dump(ev, open(os.path.join(ROOT, "evidence", prop + ".json"), "w"), indent=1, sort_keys=True)
    return ev
